#!/bin/sh
# Re-run every kept seeded change against the quick checks of its property
# (plus the extra properties listed in seeded/<id>/extra_props, if any) and
# report caught / MISSED. Applies and undoes each patch in /repo.
#   tools/regress_seeded.sh [budget_s] [id-glob]
budget=${1:-20}; glob=${2:-*}
cd /verif
for d in seeded/$glob/; do
  id=$(basename $d); [ "$id" = benign ] && continue; prop=${id%-*}
  if [ -f $d/out_of_scope ]; then echo "$id: not claimed ($(cat $d/out_of_scope))"; continue; fi
  props="$prop"; [ -f $d/extra_props ] && props="$props $(cat $d/extra_props)"
  res=MISSED
  for p in $props; do
    out=$(timeout 1500 ./tools/try_patch.sh /verif/$d/patch.diff $budget $p 2>&1)
    if echo "$out" | grep -q "^VIOLATION property=$p"; then res="caught by $p ($(echo "$out" | grep -m1 '^  class' | sed 's/  class: //'))"; break; fi
    if echo "$out" | grep -q "INFRA\|BUILD FAILED\|patch does not apply"; then res="INFRA: $(echo "$out" | grep -m1 'INFRA\|BUILD\|apply')"; fi
  done
  echo "$id: $res"
done
