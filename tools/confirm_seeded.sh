#!/bin/sh
# Confirm a sub-agent's seeded change in its scratch worktree and keep it under /verif/seeded/<id>.
#   tools/confirm_seeded.sh <worktree> <id> <property>
# Checks: patch applies to clean HEAD; builds; existing suite passes with the patch (demo moved aside);
# demo FAILS with the patch; demo PASSES without the patch.
wt=$1; id=$2; prop=$3
export GOFLAGS=-mod=mod GOPROXY=off GOSUMDB=off GOTOOLCHAIN=local
out=/verif/seeded/$id; mkdir -p $out
cd $wt || exit 2
cp _out/patch.diff $out/patch.diff
[ -f _out/notes.md ] && cp _out/notes.md $out/notes.md
demos=$(git status --porcelain | grep '^??' | awk '{print $2}' | grep '_test.go$' | tr '\n' ' ')
log=$out/confirm.log; : > $log
# clean state: revert everything tracked, keep demo aside
mkdir -p /tmp/demo-$id; for d in $demos; do mkdir -p /tmp/demo-$id/$(dirname $d); cp $d /tmp/demo-$id/$d; cp $d $out/$(basename $d); rm $d; done
git checkout -q -- . 
git apply --check _out/patch.diff >>$log 2>&1 || { echo "patch does not apply" | tee -a $log; exit 1; }
git apply _out/patch.diff
go build ./... >>$log 2>&1; b=$?
go test -vet=off -count=1 ./... >$out/suite_with_patch.log 2>&1; s=$?
pkgs=""; for d in $demos; do cp /tmp/demo-$id/$d $d; pkgs="$pkgs ./$(dirname $d)"; done
names=$(grep -ho '^func Test[A-Za-z0-9_]*' $demos | sed 's/func //' | paste -sd'|')
go test -vet=off -count=1 -run "^($names)\$" $pkgs >$out/demo_with_patch.log 2>&1; dw=$?
git apply -R _out/patch.diff
go test -vet=off -count=1 -run "^($names)\$" $pkgs >$out/demo_without_patch.log 2>&1; dwo=$?
git apply _out/patch.diff
echo "build=$b suite_with_patch=$s demo_with_patch=$dw demo_without_patch=$dwo demos=$demos tests=$names" | tee -a $log
python3 - <<PY
import json
json.dump({"id":"$id","property":"$prop","base_commit":"$(git rev-parse --short HEAD)","builds":$b==0,"existing_suite_passes_with_patch":$s==0,"demo_fails_with_patch":$dw!=0,"demo_passes_without_patch":$dwo==0,"demo_files":"$demos".split(),"demo_tests":"$names".split("|"),
 "confirmed_by":"tools/confirm_seeded.sh in a scratch worktree: go build ./...; go test -vet=off -count=1 ./... with the patch and the demo moved aside; demo tests with the patch (must fail) and with the patch reverted (must pass)"},open("$out/meta.json","w"),indent=1)
PY
rm -rf /tmp/demo-$id
