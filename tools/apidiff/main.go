// Command apidiff lists the exported names of os, sync, time, os/exec and io/ioutil that the
// simulator's replacement packages do not define (a change to pprof using one of them would not
// build against the seams). Run from /verif: go run ./tools/apidiff

package main

import (
	"fmt"
	"go/types"
	"os"
	"sort"

	"golang.org/x/tools/go/packages"
)

func names(dir, path string) map[string]string {
	cfg := &packages.Config{Mode: packages.NeedTypes | packages.NeedName, Dir: dir}
	pkgs, err := packages.Load(cfg, path)
	if err != nil || len(pkgs) == 0 || pkgs[0].Types == nil {
		fmt.Println("load", path, err)
		os.Exit(1)
	}
	out := map[string]string{}
	sc := pkgs[0].Types.Scope()
	for _, n := range sc.Names() {
		o := sc.Lookup(n)
		if o.Exported() {
			kind := fmt.Sprintf("%T", o)
			out[n] = kind
			if tn, ok := o.(*types.TypeName); ok {
				// methods
				ms := types.NewMethodSet(types.NewPointer(tn.Type()))
				for i := 0; i < ms.Len(); i++ {
					if ms.At(i).Obj().Exported() {
						out[n+"."+ms.At(i).Obj().Name()] = "method"
					}
				}
			}
		}
	}
	return out
}

func main() {
	pairs := [][2]string{{"os", "simos"}, {"sync", "simsync"}, {"time", "simtime"}, {"os/exec", "simexec"}, {"io/ioutil", "simioutil"}}
	for _, p := range pairs {
		real := names("/verif/sim", p[0])
		sim := names("/verif/sim", "github.com/google/pprof/internal/verifsim/"+p[1])
		var miss []string
		for n := range real {
			if _, ok := sim[n]; !ok {
				miss = append(miss, n)
			}
		}
		sort.Strings(miss)
		fmt.Printf("== %s: %d exported, %d missing in %s:\n%v\n", p[0], len(real), len(miss), p[1], miss)
	}
}
