import sys
pid, suffix = sys.argv[1], sys.argv[2]
hint = sys.argv[3] if len(sys.argv)>3 else ""
wt = f"/tmp/wt-{pid}-{suffix}"
prop = open(f"/tmp/prop-{pid}.txt").read()
print(f"""You are working in a scratch git worktree of the Go project google/pprof at {wt}. Work ONLY inside {wt}: do not touch or read /repo, /verif or any other project directory. There is no network. For every shell command first run: export GOFLAGS=-mod=mod GOPROXY=off GOSUMDB=off GOTOOLCHAIN=local

This property of pprof normally holds on this tree:

{prop}
TASK: make a realistic change to pprof's non-test source files in the worktree that BREAKS this property, such that
 (1) it still compiles: `go build ./...`;
 (2) the existing test suite, unedited, still passes: `cd {wt} && go test -vet=off -count=1 ./...` (about 1-2 minutes; if a test was already failing before your change say so);
 (3) ordinary use would not expose it at once: it must need something specific to manifest - a particular interleaving, a crash or fault at a particular point, a multi-step sequence of operations, an unusual input, or two cooperating sites that each look fine alone. Think of the regression a plausible refactoring, optimisation, clean-up or well-meant bug fix could introduce. Keep it small (a few to ~30 changed lines). Do not modify test files or testdata. {hint}

Also write a DEMONSTRATION: a Go test file (for example internal/driver/zz_demo_test.go, any package is fine) or a small program that FAILS with your change and PASSES without it. Verify both directions yourself (save the change with `git diff > /tmp/<your-id>.diff`, revert with `git checkout -- <paths>`, run the demo, re-apply with `git apply`; do NOT use `git stash`: it is shared between worktrees). The demo may use internal APIs and may force the needed interleaving/fault/input deterministically (channels, fake plug-in implementations, custom readers/writers, crafted profiles); it only has to demonstrate the violation.

DELIVER in {wt}/_out/ : patch.diff (`git diff` of the non-test source change only, relative to HEAD, applicable with `git apply`), a copy of the demo file(s) with a note where they belong, and notes.md saying: what the change is, why it breaks the property, exactly what is needed for it to manifest, and the exact commands you ran with their outcome (test suite passes with the patch; demo fails with the patch and passes without). Leave the worktree with the patch applied and the demo file in place. In your final answer give a 5-10 line summary of the change and what it needs to manifest.""")
