import sys
pid, suffix, hint = sys.argv[1], sys.argv[2], sys.argv[3]
wt = f"/tmp/wt-{pid}-{suffix}"
prop = open(f"/tmp/prop-{pid}.txt").read()
print(f"""You are working in a scratch git worktree of the Go project google/pprof at {wt}. Work ONLY inside {wt}: do not touch or read /repo, /verif or any other project directory. There is no network. For every shell command first run: export GOFLAGS=-mod=mod GOPROXY=off GOSUMDB=off GOTOOLCHAIN=local

This property of pprof holds on this tree and MUST STILL HOLD after your change:

{prop}
TASK: make a realistic, non-trivial, BEHAVIOUR-PRESERVING change (a refactoring, clean-up, modernisation or performance improvement, 20-80 changed lines) to the non-test source code that implements this property, of the kind a maintainer would merge. It should restructure how the property is achieved - different synchronisation primitive or locking structure, different I/O call sequence, different data structures or sort helpers, reworded user-visible messages, renamed or split internal helper functions, different standard-library calls - while the property above keeps holding for all inputs, schedules, crash points and histories. {hint}
Requirements: `go build ./...` succeeds; the existing test suite, unedited, passes (`cd {wt} && go test -vet=off -count=1 ./...`, 1-2 minutes); you have carefully reasoned (and where cheap, tested) that the property is not weakened in any corner case (ties, faults at any point, concurrency, unusual inputs). Do not modify test files or testdata. Use only the standard library and packages already imported by the module (Go 1.23).

DELIVER in {wt}/_out/ : patch.diff (`git diff` relative to HEAD, applicable with `git apply`) and notes.md explaining what you changed, why behaviour is preserved, and any corner case you considered. Leave the worktree with the patch applied. In your final answer give a 5-10 line summary.""")
