#!/bin/sh
# Apply a seeded change to /repo, run the quick checks of the given properties
# against it, and undo it straight afterwards. Never commits anything.
#   tools/try_patch.sh <patch.diff> <budget_s> <prop> [<prop>...]
set -u
patch=$1; budget=$2; shift 2
cd /repo || exit 2
if [ -n "$(git status --porcelain)" ]; then echo "/repo not clean"; exit 2; fi
git apply "$patch" || { echo "patch does not apply"; exit 2; }
trap 'git -C /repo checkout -- . ; git -C /repo clean -fdq' EXIT
cd /verif
for p in "$@"; do
  echo "=== $p on $(basename $(dirname $patch))"
  VERIF_BUDGET_S=$budget ./bin/verif check $p --tier quick 2>&1 | grep -E "^VIOLATION|^  class|^KNOWN|^runs=|BUILD FAILED|INFRA|died" | head -8
  echo "exit=$?"
done
# evidence files and replays written against a seeded change are not evidence
git -C /verif checkout -- evidence 2>/dev/null
rm -f /verif/replays/*.json
