// Package instrument rewrites copies of google/pprof's sources so that every
// source of nondeterminism is behind a seam owned by the simulator, and
// writes a `go build -overlay` file. /repo itself is never modified.
//
// All rewrites are text splices at positions taken from the type-checked AST
// (comments, //go:embed and build constraints stay where they are):
//
//  1. imports of os, sync, time, os/exec, io/ioutil -> sim packages (alias keeps the local name);
//     net/http -> simhttp in internal/transport only
//  2. go statements -> simrt.Go (function value and arguments bound first)
//  3. range over a map -> range over simrt.MapIter(m, site)
//  4. inserts into pointer-keyed maps -> key wrapped in simrt.Stamp
//  5. simrt.Yield(site) at the entry of every function declaration
//  6. init functions renamed and called from a new init; per package a
//     VerifReinit() that re-runs all package-level initialisers in
//     types.Info.InitOrder, zeroes uninitialised variables and re-runs the
//     init bodies (simulated process boundary)
package instrument

import (
	"encoding/json"
	"fmt"
	"go/ast"
	"go/token"
	"go/types"
	"os"
	"path/filepath"
	"sort"
	"strconv"
	"strings"

	"golang.org/x/tools/go/packages"
)

const simBase = "github.com/google/pprof/internal/verifsim/"

var swaps = map[string]string{
	"os":        "simos",
	"sync":      "simsync",
	"time":      "simtime",
	"os/exec":   "simexec",
	"io/ioutil": "simioutil",
}

// DefaultPackages are the packages of google/pprof that get instrumented.
var DefaultPackages = []string{
	"./profile",
	"./internal/driver",
	"./internal/report",
	"./internal/graph",
	"./internal/binutils",
	"./internal/symbolizer",
	"./internal/symbolz",
	"./internal/transport",
	"./internal/measurement",
	"./internal/elfexec",
}

// Options of one instrumentation pass.
type Options struct {
	Repo     string            // /repo
	SimDir   string            // /verif/sim
	OutDir   string            // scratch directory for rewritten files and overlay.json
	Packages []string          // patterns relative to Repo
	Inject   map[string]string // repo-relative destination -> source file (engine test files)
	HideTest []string          // repo-relative package dirs whose *_test.go are hidden
}

// Site describes one instrumentation site.
type Site struct {
	ID   uint32 `json:"id"`
	Kind string `json:"kind"`
	Pos  string `json:"pos"`
	Func string `json:"func,omitempty"`
}

// Stats of one pass.
type Stats struct {
	Files        int            `json:"files"`
	ImportSwaps  map[string]int `json:"import_swaps"`
	GoStmts      int            `json:"go_stmts"`
	MapRanges    int            `json:"map_ranges"`
	MapRangeKeys map[string]int `json:"map_range_key_types"`
	Stamps       int            `json:"stamps"`
	ChanOps      int            `json:"chan_ops"`
	Selects      int            `json:"selects"`
	Yields       int            `json:"yields"`
	Inits        int            `json:"inits"`
	ReinitVars   int            `json:"reinit_vars"`
	Sites        []Site         `json:"-"`
	DictStrings  int            `json:"dict_strings"`
	DictInts     int            `json:"dict_ints"`
	dictS        map[string]bool
	dictI        map[int64]bool
	Overlay      string         `json:"overlay"`
}

type edit struct {
	pos, end int
	text     string
	prio     int
}

type fileCtx struct {
	pkg    *packages.Package
	file   *ast.File
	name   string
	src    []byte
	edits  []edit
	tail   []string
	needRT bool
	fset   *token.FileSet
}

func (fc *fileCtx) off(p token.Pos) int { return fc.fset.Position(p).Offset }
func (fc *fileCtx) text(n ast.Node) string {
	return string(fc.src[fc.off(n.Pos()):fc.off(n.End())])
}
func (fc *fileCtx) replace(pos, end token.Pos, s string) {
	fc.edits = append(fc.edits, edit{pos: fc.off(pos), end: fc.off(end), text: s})
}
func (fc *fileCtx) insert(pos token.Pos, s string, prio int) {
	fc.edits = append(fc.edits, edit{pos: fc.off(pos), end: fc.off(pos), text: s, prio: prio})
}

// Run instruments the tree and writes OutDir/overlay.json.
func Run(o Options) (*Stats, error) {
	if len(o.Packages) == 0 {
		o.Packages = DefaultPackages
	}
	st := &Stats{ImportSwaps: map[string]int{}, MapRangeKeys: map[string]int{}, dictS: map[string]bool{}, dictI: map[int64]bool{}}
	cfg := &packages.Config{
		Mode: packages.NeedName | packages.NeedFiles | packages.NeedCompiledGoFiles | packages.NeedSyntax | packages.NeedTypes | packages.NeedTypesInfo | packages.NeedImports,
		Dir:  o.Repo,
		Env:  append(os.Environ(), "GOFLAGS=-mod=mod", "GOPROXY=off", "GOSUMDB=off"),
	}
	pkgs, err := packages.Load(cfg, o.Packages...)
	if err != nil {
		return nil, err
	}
	for _, p := range pkgs {
		for _, e := range p.Errors {
			return nil, fmt.Errorf("load %s: %v", p.PkgPath, e)
		}
	}
	if err := os.MkdirAll(o.OutDir, 0755); err != nil {
		return nil, err
	}
	overlay := map[string]string{}
	var siteCtr uint32
	sort.Slice(pkgs, func(i, j int) bool { return pkgs[i].PkgPath < pkgs[j].PkgPath })
	for _, p := range pkgs {
		if err := instrumentPackage(o, p, st, overlay, &siteCtr); err != nil {
			return nil, fmt.Errorf("%s: %v", p.PkgPath, err)
		}
	}
	// The simulated runtime as overlay-only packages.
	simRoot := filepath.Join(o.Repo, "internal", "verifsim")
	err = filepath.Walk(o.SimDir, func(path string, info os.FileInfo, err error) error {
		if err != nil {
			return err
		}
		if info.IsDir() || !strings.HasSuffix(path, ".go") || strings.HasSuffix(path, "_test.go") {
			return nil
		}
		rel, _ := filepath.Rel(o.SimDir, path)
		overlay[filepath.Join(simRoot, rel)] = path
		return nil
	})
	if err != nil {
		return nil, err
	}
	// Hide existing tests of the target packages, inject the engines.
	for _, d := range o.HideTest {
		matches, _ := filepath.Glob(filepath.Join(o.Repo, d, "*_test.go"))
		for _, m := range matches {
			overlay[m] = ""
		}
	}
	for dst, src := range o.Inject {
		overlay[filepath.Join(o.Repo, dst)] = src
	}
	ov := struct{ Replace map[string]string }{overlay}
	data, _ := json.MarshalIndent(ov, "", " ")
	st.Overlay = filepath.Join(o.OutDir, "overlay.json")
	if err := os.WriteFile(st.Overlay, data, 0644); err != nil {
		return nil, err
	}
	var ds []string
	for s := range st.dictS {
		ds = append(ds, s)
	}
	sort.Strings(ds)
	var di []int64
	for v := range st.dictI {
		di = append(di, v)
	}
	sort.Slice(di, func(a, b int) bool { return di[a] < di[b] })
	st.DictStrings, st.DictInts = len(ds), len(di)
	dict, _ := json.Marshal(struct {
		Strings []string `json:"strings"`
		Ints    []int64  `json:"ints"`
	}{ds, di})
	if err := os.WriteFile(filepath.Join(o.OutDir, "dict.json"), dict, 0644); err != nil {
		return nil, err
	}
	sites, _ := json.Marshal(st.Sites)
	if err := os.WriteFile(filepath.Join(o.OutDir, "sites.json"), sites, 0644); err != nil {
		return nil, err
	}
	return st, nil
}

func ident(s string) string {
	var b strings.Builder
	for _, r := range s {
		if r >= 'a' && r <= 'z' || r >= 'A' && r <= 'Z' || r >= '0' && r <= '9' {
			b.WriteRune(r)
		} else {
			b.WriteByte('_')
		}
	}
	return b.String()
}

func instrumentPackage(o Options, p *packages.Package, st *Stats, overlay map[string]string, siteCtr *uint32) error {
	type initCall struct {
		file string
		name string
	}
	var files []*fileCtx
	for i, f := range p.Syntax {
		name := p.CompiledGoFiles[i]
		if !strings.HasSuffix(name, ".go") || strings.HasSuffix(name, "_test.go") {
			continue
		}
		src, err := os.ReadFile(name)
		if err != nil {
			return err
		}
		files = append(files, &fileCtx{pkg: p, file: f, name: name, src: src, fset: p.Fset})
	}
	sort.Slice(files, func(i, j int) bool { return files[i].name < files[j].name })
	byFile := map[*token.File]*fileCtx{}
	for _, fc := range files {
		byFile[p.Fset.File(fc.file.Pos())] = fc
	}
	newSite := func(kind string, fc *fileCtx, pos token.Pos, fn string) uint32 {
		*siteCtr++
		ps := p.Fset.Position(pos)
		rel, _ := filepath.Rel(o.Repo, ps.Filename)
		st.Sites = append(st.Sites, Site{ID: *siteCtr, Kind: kind, Pos: fmt.Sprintf("%s:%d", rel, ps.Line), Func: fn})
		return *siteCtr
	}

	var inits []initCall
	reinitName := map[ast.Expr]string{} // Rhs -> generated function
	embedVars := map[string]bool{}

	for fi, fc := range files {
		st.Files++
		base := ident(strings.TrimSuffix(filepath.Base(fc.name), ".go"))
		// 1. imports
		for _, imp := range fc.file.Imports {
			path := strings.Trim(imp.Path.Value, "`\"")
			sim, ok := swaps[path]
			if !ok && path == "net/http" && strings.HasSuffix(p.PkgPath, "/internal/transport") {
				// internal/transport runs for real over a simulated TLS network
				sim, ok = "simhttp", true
			}
			if !ok {
				continue
			}
			local := filepath.Base(path)
			if imp.Name != nil {
				local = imp.Name.Name
				fc.replace(imp.Path.Pos(), imp.Path.End(), fmt.Sprintf("%q", simBase+sim))
			} else {
				fc.replace(imp.Path.Pos(), imp.Path.End(), fmt.Sprintf("%s %q", local, simBase+sim))
			}
			st.ImportSwaps[path]++
		}
		// init functions and package-level vars of this file
		initN := 0
		for _, d := range fc.file.Decls {
			switch d := d.(type) {
			case *ast.FuncDecl:
				if d.Recv == nil && d.Name.Name == "init" && d.Body != nil {
					nn := fmt.Sprintf("verifInit_%s_%d", base, initN)
					initN++
					fc.replace(d.Name.Pos(), d.Name.End(), nn)
					fc.tail = append(fc.tail, fmt.Sprintf("func init() { %s() }", nn))
					inits = append(inits, initCall{fc.name, nn})
					st.Inits++
				}
			case *ast.GenDecl:
				if d.Tok != token.VAR {
					continue
				}
				for _, s := range d.Specs {
					vs := s.(*ast.ValueSpec)
					embed := false
					for _, cg := range []*ast.CommentGroup{d.Doc, vs.Doc} {
						if cg == nil {
							continue
						}
						for _, c := range cg.List {
							if strings.HasPrefix(c.Text, "//go:embed") {
								embed = true
							}
						}
					}
					if embed {
						for _, n := range vs.Names {
							embedVars[n.Name] = true
						}
						continue
					}
					if len(vs.Values) == 0 && vs.Type != nil {
						var names []string
						for _, n := range vs.Names {
							if n.Name != "_" {
								names = append(names, n.Name)
							}
						}
						if len(names) == 0 {
							continue
						}
						fn := fmt.Sprintf("verifZero_%s_%d", base, len(fc.tail))
						var body []string
						for _, n := range names {
							body = append(body, fmt.Sprintf("%s = *new(%s)", n, fc.text(vs.Type)))
							st.ReinitVars++
						}
						fc.tail = append(fc.tail, fmt.Sprintf("func %s() { %s }", fn, strings.Join(body, "; ")))
						inits = append(inits, initCall{"", fn}) // zeroing goes first, see below
					}
				}
			}
		}
		_ = fi

		// 2..5: walk
		var curFunc string
		skip := map[ast.Node]bool{} // channel operations that must stay as they are (select communications)
		recv2 := map[ast.Node]bool{}
		selN := 0
		isChan := func(e ast.Expr) bool {
			tv := p.TypesInfo.TypeOf(e)
			if tv == nil {
				return false
			}
			_, ok := tv.Underlying().(*types.Chan)
			return ok
		}
		ast.Inspect(fc.file, func(n ast.Node) bool {
			switch n := n.(type) {
			case *ast.BasicLit:
				// Auto-dictionary: string and integer literals of the tree feed the
				// engines' vocabularies and size choices, so that magic names and
				// thresholds of the current code are reachable by the generators.
				switch n.Kind {
				case token.STRING:
					if s, err := strconv.Unquote(n.Value); err == nil && len(s) >= 1 && len(s) <= 48 && !strings.ContainsAny(s, "\n\r\x00") && !strings.Contains(s, "%") {
						st.dictS[s] = true
					}
				case token.INT:
					if v, err := strconv.ParseInt(n.Value, 0, 64); err == nil && v >= 2 && v <= 100000 {
						st.dictI[v] = true
					}
				}
			case *ast.SelectStmt:
				hasDefault := false
				for _, c := range n.Body.List {
					cc := c.(*ast.CommClause)
					if cc.Comm == nil {
						hasDefault = true
						continue
					}
					skip[cc.Comm] = true
					switch cm := cc.Comm.(type) {
					case *ast.ExprStmt:
						skip[ast.Unparen(cm.X)] = true
					case *ast.AssignStmt:
						if len(cm.Rhs) == 1 {
							skip[ast.Unparen(cm.Rhs[0])] = true
						}
					}
				}
				st.Selects++
				fc.needRT = true
				switch {
				case len(n.Body.List) == 0:
					fc.replace(n.Pos(), n.End(), "verifsimrt.BlockForever()")
				case !hasDefault:
					selN++
					fc.insert(n.Select, fmt.Sprintf("var verifSelCnt%d int; verifSel%d: ", selN, selN), 0)
					fc.insert(n.Body.Rbrace, fmt.Sprintf("default: verifsimrt.SelectRetry(&verifSelCnt%d); goto verifSel%d\n", selN, selN), 0)
				default:
					fc.insert(n.Select, "verifsimrt.Point(\"select\", 0); ", 0)
				}
			case *ast.CallExpr:
				if sel, ok := n.Fun.(*ast.SelectorExpr); ok && sel.Sel.Name == "Gosched" {
					if id, ok := sel.X.(*ast.Ident); ok {
						if pn, ok := p.TypesInfo.Uses[id].(*types.PkgName); ok && pn.Imported().Path() == "runtime" {
							fc.replace(n.Fun.Pos(), n.Fun.End(), "verifsimrt.Gosched")
							fc.needRT = true
							st.ChanOps++
						}
					}
				}
			case *ast.SendStmt:
				if skip[n] {
					return true
				}
				fc.insert(n.Chan.Pos(), "verifsimrt.Send(", 2)
				fc.replace(n.Chan.End(), n.Value.Pos(), ", ")
				fc.insert(n.Value.End(), ")", -2)
				fc.needRT = true
				st.ChanOps++
			case *ast.ValueSpec:
				if len(n.Values) == 1 && len(n.Names) == 2 {
					if u, ok := ast.Unparen(n.Values[0]).(*ast.UnaryExpr); ok && u.Op == token.ARROW {
						recv2[u] = true
					}
				}
			case *ast.UnaryExpr:
				if n.Op != token.ARROW || skip[n] {
					return true
				}
				fn := "verifsimrt.Recv("
				if recv2[n] {
					fn = "verifsimrt.Recv2("
				}
				fc.replace(n.OpPos, n.X.Pos(), fn)
				fc.insert(n.X.End(), ")", -2)
				fc.needRT = true
				st.ChanOps++
			case *ast.FuncDecl:
				curFunc = n.Name.Name
				if n.Body != nil {
					site := newSite("yield", fc, n.Pos(), curFunc)
					fc.insert(n.Body.Lbrace+1, fmt.Sprintf(" verifsimrt.Yield(%d);", site), 0)
					fc.needRT = true
					st.Yields++
				}
			case *ast.GoStmt:
				fc.rewriteGo(n)
				fc.needRT = true
				st.GoStmts++
			case *ast.RangeStmt:
				tv := p.TypesInfo.TypeOf(n.X)
				if tv == nil {
					return true
				}
				if isChan(n.X) {
					fc.rewriteChanRange(n)
					fc.needRT = true
					st.ChanOps++
					return true
				}
				mt, ok := tv.Underlying().(*types.Map)
				if !ok {
					return true
				}
				site := newSite("maprange", fc, n.Pos(), curFunc)
				fc.rewriteRange(n, site)
				fc.needRT = true
				st.MapRanges++
				st.MapRangeKeys[types.TypeString(mt.Key(), func(p *types.Package) string { return p.Name() })]++
			case *ast.AssignStmt:
				if len(n.Rhs) == 1 && len(n.Lhs) == 2 {
					if u, ok := ast.Unparen(n.Rhs[0]).(*ast.UnaryExpr); ok && u.Op == token.ARROW {
						recv2[u] = true
					}
				}
				for _, lhs := range n.Lhs {
					fc.maybeStamp(p, lhs, st)
				}
			case *ast.IncDecStmt:
				fc.maybeStamp(p, n.X, st)
			case *ast.CompositeLit:
				tv := p.TypesInfo.TypeOf(n)
				if tv == nil {
					return true
				}
				if mt, ok := tv.Underlying().(*types.Map); ok && isPtr(mt.Key()) {
					for _, el := range n.Elts {
						if kv, ok := el.(*ast.KeyValueExpr); ok {
							fc.insert(kv.Key.Pos(), "verifsimrt.Stamp(", 1)
							fc.insert(kv.Key.End(), ")", -1)
							fc.needRT = true
							st.Stamps++
						}
					}
				}
			}
			return true
		})
	}

	// 6. reinit functions for initialised variables, in InitOrder.
	var order []string
	for i, in := range p.TypesInfo.InitOrder {
		tf := p.Fset.File(in.Rhs.Pos())
		fc := byFile[tf]
		if fc == nil {
			continue
		}
		skip := false
		var lhs []string
		for _, v := range in.Lhs {
			if embedVars[v.Name()] {
				skip = true
			}
			lhs = append(lhs, v.Name())
		}
		if skip {
			continue
		}
		fn := fmt.Sprintf("verifReinit_%s_%d", ident(p.Name), i)
		fc.tail = append(fc.tail, fmt.Sprintf("func %s() { %s = %s }", fn, strings.Join(lhs, ", "), fc.text(in.Rhs)))
		reinitName[in.Rhs] = fn
		order = append(order, fn)
		st.ReinitVars += len(lhs)
	}

	// write files
	for _, fc := range files {
		out, err := fc.apply()
		if err != nil {
			return fmt.Errorf("%s: %v", fc.name, err)
		}
		rel, _ := filepath.Rel(o.Repo, fc.name)
		dst := filepath.Join(o.OutDir, "src", rel)
		if err := os.MkdirAll(filepath.Dir(dst), 0755); err != nil {
			return err
		}
		if err := os.WriteFile(dst, out, 0644); err != nil {
			return err
		}
		overlay[fc.name] = dst
	}
	// generated per-package file
	var sb strings.Builder
	fmt.Fprintf(&sb, "// Code generated by verif instrument. DO NOT EDIT.\n\npackage %s\n\nimport verifsimrt %q\n\n", p.Name, simBase+"simrt")
	sb.WriteString("// VerifReinit puts the package back into the state of a fresh process.\nfunc VerifReinit() {\n")
	for _, ic := range inits {
		if ic.file == "" {
			fmt.Fprintf(&sb, "\t%s()\n", ic.name)
		}
	}
	for _, fn := range order {
		fmt.Fprintf(&sb, "\t%s()\n", fn)
	}
	for _, ic := range inits {
		if ic.file != "" {
			fmt.Fprintf(&sb, "\t%s()\n", ic.name)
		}
	}
	fmt.Fprintf(&sb, "}\n\nfunc init() { verifsimrt.RegisterReinit(%q, VerifReinit) }\n", p.PkgPath)
	dir := filepath.Dir(files[0].name)
	rel, _ := filepath.Rel(o.Repo, dir)
	gen := filepath.Join(o.OutDir, "src", rel, "zz_verif_reinit.go")
	if err := os.MkdirAll(filepath.Dir(gen), 0755); err != nil {
		return err
	}
	if err := os.WriteFile(gen, []byte(sb.String()), 0644); err != nil {
		return err
	}
	overlay[filepath.Join(dir, "zz_verif_reinit.go")] = gen
	return nil
}

func isPtr(t types.Type) bool {
	_, ok := t.(*types.Pointer)
	return ok
}

func (fc *fileCtx) maybeStamp(p *packages.Package, lhs ast.Expr, st *Stats) {
	ix, ok := lhs.(*ast.IndexExpr)
	if !ok {
		return
	}
	tv := p.TypesInfo.TypeOf(ix.X)
	if tv == nil {
		return
	}
	mt, ok := tv.Underlying().(*types.Map)
	if !ok || !isPtr(mt.Key()) {
		return
	}
	// Only if the key expression itself is of (unnamed) pointer type.
	if kt := p.TypesInfo.TypeOf(ix.Index); kt == nil || !isPtr(kt) {
		return
	}
	fc.insert(ix.Index.Pos(), "verifsimrt.Stamp(", 1)
	fc.insert(ix.Index.End(), ")", -1)
	fc.needRT = true
	st.Stamps++
}

func (fc *fileCtx) rewriteRange(n *ast.RangeStmt, site uint32) {
	var pro []string
	assign := ":="
	if n.Tok == token.ASSIGN {
		assign = "="
	}
	isBlank := func(e ast.Expr) bool {
		if e == nil {
			return true
		}
		id, ok := e.(*ast.Ident)
		return ok && id.Name == "_"
	}
	if !isBlank(n.Key) {
		pro = append(pro, fmt.Sprintf("%s %s verifE.K", fc.text(n.Key), assign))
	}
	if !isBlank(n.Value) {
		if n.Tok == token.ASSIGN {
			pro = append(pro, fmt.Sprintf("var verifOK bool; %s, verifOK = verifE.M[verifE.K]", fc.text(n.Value)))
		} else {
			pro = append(pro, fmt.Sprintf("%s, verifOK := verifE.M[verifE.K]", fc.text(n.Value)))
		}
	} else {
		pro = append(pro, "_, verifOK := verifE.M[verifE.K]")
	}
	pro = append(pro, "if !verifOK { continue }")
	hdr := fmt.Sprintf("for _, verifE := range verifsimrt.MapIter(%s, %d) { %s;", fc.text(n.X), site, strings.Join(pro, "; "))
	fc.replace(n.For, n.Body.Lbrace+1, hdr)
}

func (fc *fileCtx) rewriteChanRange(n *ast.RangeStmt) {
	recv := "_, verifOK := verifsimrt.Recv2(verifCh)"
	if n.Key != nil {
		if id, ok := n.Key.(*ast.Ident); !ok || id.Name != "_" {
			if n.Tok == token.ASSIGN {
				recv = fmt.Sprintf("var verifOK bool; %s, verifOK = verifsimrt.Recv2(verifCh)", fc.text(n.Key))
			} else {
				recv = fmt.Sprintf("%s, verifOK := verifsimrt.Recv2(verifCh)", fc.text(n.Key))
			}
		}
	}
	hdr := fmt.Sprintf("for verifCh := (%s); ; { %s; if !verifOK { break };", fc.text(n.X), recv)
	fc.replace(n.For, n.Body.Lbrace+1, hdr)
}

func (fc *fileCtx) rewriteGo(n *ast.GoStmt) {
	call := n.Call
	// go F(A...)  ->  { verifF := F; verifA0 := A0; ...; verifsimrt.Go(func() { verifF(verifA0, ...) }) }
	fc.replace(n.Go, call.Fun.Pos(), "{ verifF := ")
	var argNames []string
	prev := call.Lparen
	for i, a := range call.Args {
		name := fmt.Sprintf("verifA%d", i)
		switch a := a.(type) {
		case *ast.BasicLit:
			fc.replace(prev, a.Pos(), "; const "+name+" = ")
		case *ast.Ident:
			if a.Name == "nil" || a.Name == "true" || a.Name == "false" || a.Name == "iota" {
				fc.replace(prev, a.End(), "; _ = 0")
				argNames = append(argNames, a.Name)
				prev = a.End()
				continue
			}
			fc.replace(prev, a.Pos(), "; "+name+" := ")
		default:
			fc.replace(prev, a.Pos(), "; "+name+" := ")
		}
		if call.Ellipsis.IsValid() && i == len(call.Args)-1 {
			name += "..."
		}
		argNames = append(argNames, name)
		prev = a.End()
	}
	fc.replace(prev, call.Rparen+1, fmt.Sprintf("; verifsimrt.Go(func() { verifF(%s) }) }", strings.Join(argNames, ", ")))
}

func (fc *fileCtx) apply() ([]byte, error) {
	sort.SliceStable(fc.edits, func(i, j int) bool {
		a, b := fc.edits[i], fc.edits[j]
		if a.pos != b.pos {
			return a.pos < b.pos
		}
		if a.end != b.end {
			return a.end < b.end // pure inserts before replacements starting here
		}
		return a.prio < b.prio
	})
	var out []byte
	last := 0
	for _, e := range fc.edits {
		if e.pos < last {
			return nil, fmt.Errorf("overlapping edits at offset %d", e.pos)
		}
		out = append(out, fc.src[last:e.pos]...)
		out = append(out, e.text...)
		last = e.end
	}
	out = append(out, fc.src[last:]...)
	s := string(out)
	if fc.needRT {
		// Add the simrt import right after the package clause.
		pkgEnd := fc.off(fc.file.Name.End())
		// offsets shifted? The package clause precedes every edit, so pkgEnd is still valid.
		s = s[:pkgEnd] + "; import verifsimrt \"" + simBase + "simrt\"" + s[pkgEnd:]
	}
	if len(fc.tail) > 0 {
		s += "\n\n// ---- generated by verif instrument ----\n" + strings.Join(fc.tail, "\n") + "\n"
	}
	return []byte(s), nil
}
