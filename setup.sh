#!/bin/sh
# Build the orchestrator from files on disk only (offline).
set -e
cd /verif
export GOFLAGS=-mod=mod GOPROXY=off GOSUMDB=off GOTOOLCHAIN=local
mkdir -p bin evidence replays .work
go build -o bin/verif ./cmd/verif
