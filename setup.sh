#!/bin/sh
# Build the orchestrator from files on disk only (offline).
set -e
cd "$(dirname "$0")"
V=$(pwd)
R=${VERIF_REPO:-/repo}
export GOFLAGS=-mod=mod GOPROXY=off GOSUMDB=off GOTOOLCHAIN=local
mkdir -p bin evidence replays .work
go build -o bin/verif ./cmd/verif
# Warm the Go build cache (standard library with and without -race, pprof's
# dependencies) so that the first check does not pay for it.
VERIF_DIR=$V ./bin/verif instrument $V/.work/setup >/dev/null
(cd $R && go test -c -tags verif -vet=off -overlay=$V/.work/setup/overlay.json -o $V/.work/setup/d.test ./internal/driver && \
 go test -c -race -tags verif -vet=off -overlay=$V/.work/setup/overlay.json -o $V/.work/setup/dr.test ./internal/driver) || echo "warm-up build failed (checks will report it)"
rm -rf $V/.work/setup
