#!/bin/sh
# Build the orchestrator from files on disk only (offline).
set -e
cd /verif
export GOFLAGS=-mod=mod GOPROXY=off GOSUMDB=off GOTOOLCHAIN=local
mkdir -p bin evidence replays .work
go build -o bin/verif ./cmd/verif
# Warm the Go build cache (standard library with and without -race, pprof's
# dependencies) so that the first check does not pay for it.
./bin/verif instrument /verif/.work/setup >/dev/null
(cd /repo && go test -c -tags verif -vet=off -overlay=/verif/.work/setup/overlay.json -o /verif/.work/setup/d.test ./internal/driver && \
 go test -c -race -tags verif -vet=off -overlay=/verif/.work/setup/overlay.json -o /verif/.work/setup/dr.test ./internal/driver) || echo "warm-up build failed (checks will report it)"
rm -rf /verif/.work/setup
