#!/bin/sh
# dev helper: instrument + build driver test binary into /verif/.work/dev ; usage: run_dev.sh [race]
export GOFLAGS=-mod=mod GOPROXY=off GOSUMDB=off GOTOOLCHAIN=local
set -e
cd /verif && go build -o bin/verif ./cmd/verif && ./bin/verif instrument /verif/.work/dev >/dev/null
cd /repo
if [ "$1" = race ]; then
go test -c -race -tags verif -vet=off -overlay=/verif/.work/dev/overlay.json -o /verif/.work/dev/driver.race.test ./internal/driver
else
go test -c -tags verif -vet=off -overlay=/verif/.work/dev/overlay.json -o /verif/.work/dev/driver.test ./internal/driver
fi
