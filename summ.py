import sys,json,collections
c=collections.Counter(); n=0
for l in sys.stdin:
    l=l.strip()
    if not l.startswith('{'):
        if l and l!='PASS': print(l[:300])
        continue
    r=json.loads(l); n+=1
    v=r.get('violation')
    c[(v or {}).get('class','ok')]+=1
    if v and c[v['class']]<=int(sys.argv[1]) if len(sys.argv)>1 else 2:
        print(r['seed'], v['class'], v['detail'][:int(sys.argv[2]) if len(sys.argv)>2 else 400]); 
        for t in (r.get('trace') or [])[:30]: print('    ',t[:200])
print(n, dict(c))
