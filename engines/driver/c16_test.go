//go:build verif

package driver

// C16: multi-source fetch merges whatever succeeded, independent of timing.
//
// System under simulation: driver.PProf end to end (parseFlags, fetchProfiles,
// grabSourcesAndBases, chunkedGrab, concurrentGrab, grabProfile, the built-in
// fetch over the simulated disk and the simulated HTTP transport, the Fetcher
// plug-in, combineProfiles, -proto report). Every fetch goroutine is a
// simulated task; the scheduler and per-source simulated latencies decide the
// completion order, the fault plan decides which sources fail and how.

import (
	"bytes"
	"crypto/tls"
	"fmt"
	"io"
	"net/http"
	"regexp"
	"sort"
	"strings"
	"syscall"
	"time"

	"github.com/google/pprof/internal/plugin"
	"github.com/google/pprof/internal/verifsim/simexec"
	"github.com/google/pprof/internal/verifsim/simhttp"
	"github.com/google/pprof/internal/verifsim/simos"
	"github.com/google/pprof/internal/verifsim/simrt"
	"github.com/google/pprof/profile"
)

func init() {
	register(&engine{name: "c16", prop: "C16", run: runC16})
}

// source kinds
const (
	skFile = iota
	skURL
	skFetcher
	skPerf // a perf.data file converted by the external perf_to_profile tool
)

// source fault kinds
const (
	sfGood = iota
	sfMissing
	sfHTTP404
	sfHTTP500Body
	sfGarbage
	sfTorn
	sfInvalid
	sfFetcherErr
	sfStall
	sfReadErr
	sfToolFails
	sfCert // https source whose server certificate does not verify
	nSF
)

var sfNames = [...]string{"good", "missing", "http404", "http500+pprof-body", "garbage", "torn", "invalid-profile", "fetcher-error", "stall->timeout", "disk-read-error", "converter-fails", "certificate-untrusted"}
var skNames = [...]string{"file", "url", "fetcher", "perf.data"}

// modelSample is one sample of the generator's description of a source.
type modelSample struct {
	stack  []int // function indices, leaf first
	labels int   // index into c16Labels
	vals   [2]int64
}

type c16src struct {
	idx     int
	base    bool
	kind    int
	fault   int
	tornAt  int
	latency int64 // simulated ns before the source answers
	buildID string
	// slowSecs > 0: a URL source that asks for a profile of that many seconds
	// (?seconds=N) and whose server answers after N simulated seconds; with
	// no -seconds/-timeout flag pprof must wait N + N/2 (+5) seconds for it.
	slowSecs int
	comment  string // non-empty: a comment naming the source, to make the merge order visible
	layout   int    // 0: the binary mapped at 0x1000; 1: at 0x400000, where the scripted local binary does not fit
	scheme   int    // URL sources through pprof's own transport: 0 http, 1 https (trusted), 2 https to a self-signed server (fails), 3 https+insecure to a self-signed server
	samples  []modelSample
	addr     string
	data     []byte
}

func (s *c16src) String() string {
	b := ""
	if s.base {
		b = "base "
	}
	return fmt.Sprintf("%s%s[%s,%s,lat=%dms,%d samples]", b, s.addr, skNames[s.kind], sfNames[s.fault], s.latency/1e6, len(s.samples))
}

var c16Funcs = []string{"main", "alpha", "beta", "gamma", "delta", "omega"}
var c16Labels = []map[string]string{nil, {"tenant": "t1"}, {"tenant": "t2", "op": "read"}}

func c16Build(s *c16src) *profile.Profile {
	p := &profile.Profile{
		SampleType: []*profile.ValueType{{Type: "samples", Unit: "count"}, {Type: "cpu", Unit: "nanoseconds"}},
		PeriodType: &profile.ValueType{Type: "cpu", Unit: "nanoseconds"},
		Period:     1000,
	}
	bid := s.buildID
	if bid == "" {
		bid = "b1d"
	}
	m := &profile.Mapping{ID: 1, Start: 0x1000, Limit: 0x9000, File: "/bin/prog", BuildID: bid, HasFunctions: true}
	if s.layout == 1 {
		m.Start, m.Limit = 0x400000, 0x408000
	}
	p.Mapping = []*profile.Mapping{m}
	if s.comment != "" {
		p.Comments = []string{s.comment}
	}
	locs := map[int]*profile.Location{}
	getLoc := func(fi int) *profile.Location {
		if l, ok := locs[fi]; ok {
			return l
		}
		f := &profile.Function{ID: uint64(len(p.Function) + 1), Name: c16Funcs[fi], SystemName: c16Funcs[fi], Filename: "/src/" + c16Funcs[fi] + ".go", StartLine: int64(10 * (fi + 1))}
		p.Function = append(p.Function, f)
		l := &profile.Location{ID: uint64(len(p.Location) + 1), Mapping: m, Address: m.Start + uint64(0x100*fi), Line: []profile.Line{{Function: f, Line: int64(10*(fi+1) + 1)}}}
		p.Location = append(p.Location, l)
		locs[fi] = l
		return l
	}
	for _, ms := range s.samples {
		smp := &profile.Sample{Value: []int64{ms.vals[0], ms.vals[1]}}
		for _, fi := range ms.stack {
			smp.Location = append(smp.Location, getLoc(fi))
		}
		if lb := c16Labels[ms.labels]; lb != nil {
			smp.Label = map[string][]string{}
			for k, v := range lb {
				smp.Label[k] = []string{v}
			}
		}
		p.Sample = append(p.Sample, smp)
	}
	return p
}

// refModel: (stack of names | labels) -> value vector.
type refModel map[string][2]int64

func sampleKey(names []string, labels map[string][]string) string {
	var ls []string
	for k, vs := range labels {
		for _, v := range vs {
			ls = append(ls, k+"="+v)
		}
	}
	sort.Strings(ls)
	return strings.Join(names, ";") + "|" + strings.Join(ls, ",")
}

func (m refModel) add(names []string, labels map[string][]string, v [2]int64, sign int64) {
	k := sampleKey(names, labels)
	cur := m[k]
	cur[0] += sign * v[0]
	cur[1] += sign * v[1]
	if cur == [2]int64{} {
		delete(m, k)
	} else {
		m[k] = cur
	}
}

func (m refModel) String() string {
	var ks []string
	for k, v := range m {
		ks = append(ks, fmt.Sprintf("%s=%v", k, v))
	}
	sort.Strings(ks)
	return strings.Join(ks, " ")
}

func canonProfile(p *profile.Profile) (refModel, error) {
	m := refModel{}
	for _, s := range p.Sample {
		if len(s.Value) != 2 {
			return nil, fmt.Errorf("sample with %d values", len(s.Value))
		}
		var names []string
		for _, l := range s.Location {
			for _, ln := range l.Line {
				if ln.Function == nil {
					return nil, fmt.Errorf("line without function")
				}
				names = append(names, ln.Function.Name)
			}
		}
		m.add(names, s.Label, [2]int64{s.Value[0], s.Value[1]}, 1)
	}
	return m, nil
}

// expected model from the generator's description.
func c16Expected(srcs []*c16src, diffBase bool) refModel {
	m := refModel{}
	for _, s := range srcs {
		if s.fault != sfGood {
			continue
		}
		for _, ms := range s.samples {
			var names []string
			for _, fi := range ms.stack {
				names = append(names, c16Funcs[fi])
			}
			labels := map[string][]string{}
			for k, v := range c16Labels[ms.labels] {
				labels[k] = []string{v}
			}
			sign := int64(1)
			if s.base {
				sign = -1
				if diffBase {
					labels["pprof::base"] = []string{"true"}
				}
			}
			m.add(names, labels, ms.vals, sign)
		}
	}
	return m
}

// ---- the simulated network and Fetcher ----

// c16tls is the network below pprof's own transport: servers whose host name
// starts with "self-" present a self-signed certificate.
type c16tls struct{ n *c16net }

func (t c16tls) CertTrusted(host string, cfg *tls.Config) bool {
	return !strings.HasPrefix(host, "self-") || (cfg != nil && cfg.RootCAs != nil)
}
func (t c16tls) Serve(req *http.Request) (*http.Response, error) { return t.n.RoundTrip(req) }

type c16net struct {
	byHost  map[string]*c16src
	byFetch map[string]*c16src
}

type simBody struct {
	data    []byte
	pos     int
	errAt   int // -1: none; otherwise return errRead once pos reaches errAt
	errRead error
	chunk   int
}

func (b *simBody) Read(p []byte) (int, error) {
	simrt.Point("net-read", int64(b.pos))
	if b.errAt >= 0 && b.pos >= b.errAt {
		return 0, b.errRead
	}
	if b.pos >= len(b.data) {
		return 0, io.EOF
	}
	n := len(p)
	if b.chunk > 0 && n > b.chunk {
		n = b.chunk
	}
	if b.errAt >= 0 && b.pos+n > b.errAt {
		n = b.errAt - b.pos
	}
	n = copy(p[:n], b.data[b.pos:])
	b.pos += n
	return n, nil
}
func (b *simBody) Close() error { return nil }

type netErr struct{ msg string }

func (e netErr) Error() string   { return e.msg }
func (e netErr) Timeout() bool   { return strings.Contains(e.msg, "timeout") }
func (e netErr) Temporary() bool { return false }

func (n *c16net) RoundTrip(req *http.Request) (*http.Response, error) {
	host := req.URL.Host
	simrt.Log("net", host, 0)
	simrt.Point("net-rt", 0)
	s := n.byHost[host]
	if s == nil {
		return nil, netErr{"dial tcp: lookup " + host + ": no such host"}
	}
	// http.Client puts its timeout on the request context as a (wall-clock)
	// deadline; the remaining time is the timeout pprof chose. The server
	// answers after its simulated latency, or the client gives up first.
	timeout := int64(1 << 62)
	if dl, ok := req.Context().Deadline(); ok {
		// The deadline is wall-clock (set microseconds ago by http.Client):
		// rounding to whole seconds recovers the configured timeout exactly, so
		// that no real-clock jitter enters the simulation.
		timeout = int64(time.Until(dl).Round(time.Second))
	}
	if s.slowSecs > 0 {
		lat := int64(s.slowSecs) * int64(time.Second)
		if lat >= timeout {
			simrt.SleepNs(timeout)
			return nil, netErr{"net/http: request canceled (Client.Timeout exceeded while awaiting headers): timeout"}
		}
		simrt.SleepNs(lat)
	} else if s.latency > 0 {
		simrt.SleepNs(s.latency)
	}
	resp := &http.Response{Status: "200 OK", StatusCode: 200, Proto: "HTTP/1.1", ProtoMajor: 1, ProtoMinor: 1, Header: http.Header{}, Request: req}
	body := &simBody{data: s.data, errAt: -1, chunk: 512}
	switch s.fault {
	case sfMissing:
		return nil, netErr{"dial tcp " + host + ": connect: connection refused"}
	case sfStall:
		// Nothing ever arrives; the client's own timeout (simulated time) ends the wait.
		if timeout > int64(400*time.Second) {
			timeout = int64(400 * time.Second)
		}
		simrt.SleepNs(timeout)
		return nil, netErr{"net/http: request canceled (Client.Timeout exceeded while awaiting headers): timeout"}
	case sfHTTP404:
		resp.Status, resp.StatusCode = "404 Not Found", 404
		body.data = []byte("not found")
	case sfHTTP500Body:
		resp.Status, resp.StatusCode = "500 Internal Server Error", 500
		resp.Header.Set("X-Go-Pprof", "1")
		resp.Header.Set("Content-Type", "text/plain; charset=utf-8")
		body.data = []byte("profiling already in use")
	case sfTorn:
		if s.tornAt%2 == 0 {
			body.data = s.data[:s.tornAt]
		} else {
			body.errAt = s.tornAt
			body.errRead = io.ErrUnexpectedEOF
		}
	case sfReadErr:
		body.errAt = s.tornAt
		body.errRead = netErr{"read tcp: connection reset by peer"}
	}
	resp.Body = body
	return resp, nil
}

func (n *c16net) Fetch(src string, duration, timeout time.Duration) (*profile.Profile, string, error) {
	s := n.byFetch[src]
	if s == nil {
		return nil, "", nil // not ours: built-in fetch
	}
	simrt.Log("fetcher", src, 0)
	simrt.Point("fetcher", 0)
	if s.latency > 0 {
		simrt.SleepNs(s.latency)
	}
	switch s.fault {
	case sfGood:
		return c16Build(s), "", nil
	case sfInvalid:
		p := c16Build(s)
		p.Sample = append(p.Sample, &profile.Sample{Value: []int64{1}}) // wrong number of values
		return p, "", nil
	}
	return nil, "", fmt.Errorf("fetcher: cannot fetch %s", src)
}

// c16Obj finds local binaries stored by build id under $HOME/pprof/binaries,
// the way locateBinaries looks for them; nothing else opens.
type c16Obj struct{}

type c16ObjFile struct{ name, id string }

func (f c16ObjFile) Name() string                                                 { return f.name }
func (f c16ObjFile) ObjAddr(addr uint64) (uint64, error)                          { return addr, nil }
func (f c16ObjFile) BuildID() string                                              { return f.id }
func (f c16ObjFile) SourceLine(addr uint64) ([]plugin.Frame, error)               { return nil, nil }
func (f c16ObjFile) Symbols(r *regexp.Regexp, addr uint64) ([]*plugin.Sym, error) { return nil, nil }
func (f c16ObjFile) Close() error                                                 { return nil }

const c16Binaries = simHome + "/pprof/binaries/"

func (c16Obj) Open(file string, start, limit, offset uint64, relocationSymbol string) (plugin.ObjFile, error) {
	simrt.Point("obj-open", 0)
	if strings.HasPrefix(file, c16Binaries) {
		if _, ok := simos.GetFile(file); ok {
			if start != 0x1000 {
				// like binutils, which cannot compute a base when the mapping
				// does not correspond to a load segment of the file
				return nil, fmt.Errorf("%s: mapping at %#x does not match a load segment", file, start)
			}
			rest := strings.TrimPrefix(file, c16Binaries)
			if i := strings.Index(rest, "/"); i > 0 {
				return c16ObjFile{file, rest[:i]}, nil
			}
		}
	}
	return nil, fmt.Errorf("no object file %s", file)
}

func (c16Obj) Disasm(file string, start, end uint64, intelSyntax bool) ([]plugin.Inst, error) {
	return nil, fmt.Errorf("no disassembler")
}

// ---- workload generation ----

func c16GenSamples(t *simrt.Tape) []modelSample {
	K := simrt.KGen
	n := 1 + t.Choose(K, 3)
	out := make([]modelSample, n)
	for i := range out {
		depth := 1 + t.Choose(K, 3)
		for d := 0; d < depth; d++ {
			out[i].stack = append(out[i].stack, t.Choose(K, len(c16Funcs)))
		}
		out[i].labels = t.Choose(K, len(c16Labels))
		v := int64(1 + t.Choose(K, 9))
		if t.Bool(K, 20) {
			v = -v
		}
		out[i].vals = [2]int64{v, v * 10}
	}
	return out
}

func c16FaultFor(t *simrt.Tape, kind int, pctFail int) int {
	K := simrt.KFault
	if !t.Bool(K, pctFail) {
		return sfGood
	}
	switch kind {
	case skFile:
		return []int{sfMissing, sfGarbage, sfTorn, sfReadErr}[t.Choose(K, 4)]
	case skURL:
		return []int{sfMissing, sfHTTP404, sfHTTP500Body, sfGarbage, sfTorn, sfStall, sfReadErr}[t.Choose(K, 7)]
	case skPerf:
		return []int{sfMissing, sfGarbage, sfToolFails}[t.Choose(K, 3)]
	}
	return []int{sfFetcherErr, sfInvalid}[t.Choose(K, 2)]
}

func (s *c16src) materialize() {
	kindTag := []string{"f", "u", "x", "p"}[s.kind]
	b := ""
	if s.base {
		b = "b"
	}
	switch s.kind {
	case skFile:
		s.addr = fmt.Sprintf("%ssrc%d.pb.gz", b, s.idx)
	case skURL:
		s.addr = fmt.Sprintf("http://%shost%d%s/debug/pprof/profile", b, s.idx, kindTag)
		switch s.scheme {
		case 1:
			s.addr = "https://" + strings.TrimPrefix(s.addr, "http://")
		case 2:
			s.addr = "https://self-" + strings.TrimPrefix(s.addr, "http://")
		case 3:
			s.addr = "https+insecure://self-" + strings.TrimPrefix(s.addr, "http://")
		}
		if s.slowSecs > 0 {
			s.addr += fmt.Sprintf("?seconds=%d", s.slowSecs)
		}
	case skFetcher:
		s.addr = fmt.Sprintf("fetch:%s%d", b, s.idx)
	case skPerf:
		s.addr = fmt.Sprintf("%sperf%d.data", b, s.idx)
	}
	if s.kind != skFetcher {
		s.data = encodeProfile(c16Build(s))
		if s.fault == sfGarbage {
			s.data = []byte("\x1f\x8b garbage that is not a profile \x00\xff\xfe")
		}
		if s.tornAt > len(s.data)-1 {
			s.tornAt = len(s.data) - 1
		}
		if s.tornAt < 1 {
			s.tornAt = 1
		}
	}
}

type c16case struct {
	binaries      []string // build ids for which a local binary is installed
	srcs          []*c16src
	diffBase      bool
	hasBase       bool
	remote        bool
	realTransport bool // URL sources go through internal/transport over the simulated TLS network
	tlsCA         int  // with realTransport: 0 no -tls_ca; 1 a CA file that makes the self-signed servers trusted; 2 a CA file that does not exist (every URL source fails)
	saveENOSPC    bool
}

// perfSrc maps the perf.data paths of the installed case to their sources
// (read-only while a run is active).
var perfSrc = map[string]*c16src{}

// perfToProfile scripts the external converter: -i <perf.data> -o <out> -f.
func perfToProfile(args []string, stdin []byte) ([]byte, []byte, int) {
	var in, out string
	for i := 0; i+1 < len(args); i++ {
		switch args[i] {
		case "-i":
			in = args[i+1]
		case "-o":
			out = args[i+1]
		}
	}
	if !strings.HasPrefix(in, "/") {
		in = "/sim/cwd/" + in
	}
	s := perfSrc[in]
	if s == nil || s.fault == sfToolFails {
		return nil, []byte("perf_to_profile: cannot convert\n"), 1
	}
	simos.PutFile(out, s.data)
	return nil, nil, 0
}

func (c *c16case) install() *c16net {
	perfSrc = map[string]*c16src{}
	simexec.Register("perf_to_profile", &simexec.Program{Batch: perfToProfile})
	n := &c16net{byHost: map[string]*c16src{}, byFetch: map[string]*c16src{}}
	var pfs []simos.PathFault
	for _, s := range c.srcs {
		switch s.kind {
		case skFile:
			switch s.fault {
			case sfMissing:
			case sfTorn:
				simos.PutFile("/sim/cwd/"+s.addr, s.data[:s.tornAt])
			case sfReadErr:
				simos.PutFile("/sim/cwd/"+s.addr, s.data)
				pfs = append(pfs, simos.PathFault{Path: "/sim/cwd/" + s.addr, Op: simos.OpRead, Kind: simos.FReadErr, Arg: 0, Errno: syscall.EIO, After: 1})
			default:
				simos.PutFile("/sim/cwd/"+s.addr, s.data)
			}
		case skPerf:
			if s.fault != sfMissing {
				simos.PutFile("/sim/cwd/"+s.addr, []byte(fmt.Sprintf("PERFILE2 perf.data #%d", s.idx)))
			}
			perfSrc[fmt.Sprintf("/sim/cwd/%s", s.addr)] = s
		case skURL:
			host := s.addr[strings.Index(s.addr, "://")+3:]
			host = host[:strings.Index(host, "/")]
			n.byHost[host] = s
		case skFetcher:
			n.byFetch[s.addr] = s
		}
	}
	if c.tlsCA == 1 {
		simos.PutFile("/sim/cwd/ca.pem", []byte("-----BEGIN CERTIFICATE-----\nMIIB\n-----END CERTIFICATE-----\n"))
	}
	for _, id := range c.binaries {
		simos.PutFile(c16Binaries+id+"/prog", []byte("\x7fELF fake binary "+id))
	}
	if c.saveENOSPC {
		// Saving the merged remote profile under $HOME/pprof must not matter:
		// either the directory cannot be made, or the copy cannot be created or written.
		switch len(c.srcs) % 3 {
		case 0:
			pfs = append(pfs, simos.PathFault{Path: simHome + "/pprof", Op: simos.OpMkdir, Kind: simos.FErr, Errno: syscall.ENOSPC})
		case 1:
			pfs = append(pfs, simos.PathFault{Path: simHome + "/pprof/", Prefix: true, Op: simos.OpCreate, Kind: simos.FErr, Errno: syscall.EACCES})
		case 2:
			pfs = append(pfs, simos.PathFault{Path: simHome + "/pprof/", Prefix: true, Op: simos.OpWrite, Kind: simos.FShortWrite, Arg: 10, Errno: syscall.ENOSPC})
		}
	}
	simos.SetPathFaults(pfs)
	return n
}

// perfOnlyOutput reports whether the comments cannot be relied on (sources
// converted by the scripted perf tool carry what that tool writes).
func (c *c16case) perfOnlyOutput() bool {
	for _, s := range c.srcs {
		if s.kind == skPerf {
			return true
		}
	}
	return false
}

func (c *c16case) args(onlyGood bool) []string {
	args := []string{"-proto", "-output=out.pb.gz"}
	switch c.tlsCA {
	case 1:
		args = append(args, "-tls_ca=ca.pem")
	case 2:
		args = append(args, "-tls_ca=no-such-ca.pem")
	}
	var srcs []string
	for _, s := range c.srcs {
		if onlyGood && s.fault != sfGood {
			continue
		}
		if s.base {
			if c.diffBase {
				args = append(args, "-diff_base="+s.addr)
			} else {
				args = append(args, "-base="+s.addr)
			}
		} else {
			srcs = append(srcs, s.addr)
		}
	}
	return append(args, srcs...)
}

// c16Sym stands at the Symbolizer plug-in seam and records what pprof hands
// to symbolization: per mapping key, the sources in the order pprof lists
// them (the first one with a symbol service is the one that gets asked).
type c16Sym struct{ got *string }

func (s c16Sym) Symbolize(mode string, srcs plugin.MappingSources, prof *profile.Profile) error {
	keys := make([]string, 0, len(srcs))
	for k := range srcs {
		keys = append(keys, k)
	}
	sort.Strings(keys)
	var sb strings.Builder
	for _, k := range keys {
		fmt.Fprintf(&sb, "%s:", k)
		for _, v := range srcs[k] {
			fmt.Fprintf(&sb, " %s@%#x", v.Source, v.Start)
		}
		sb.WriteString("\n")
	}
	*s.got = sb.String()
	return nil
}

type c16out struct {
	msrc string // mapping sources handed to the symbolizer
	err    error
	out    []byte
	hasOut bool
	ui     []uiLine
	res    simrt.Result
}

func (c *c16case) run(x *xctx, cfg simrt.Config, onlyGood bool, zeroLatency bool) c16out {
	freshProcess(true)
	saved := make([]int64, len(c.srcs))
	for i, s := range c.srcs {
		saved[i] = s.latency
		if zeroLatency {
			s.latency = 0
		}
	}
	net := c.install()
	ui := newTaskUI()
	w := newWriter()
	var out c16out
	o := &plugin.Options{Flagset: newFlags(c.args(onlyGood)), UI: ui, Writer: w, Sym: c16Sym{&out.msrc}, Obj: c16Obj{}, Fetch: net, HTTPTransport: net}
	if c.realTransport {
		// pprof's own transport (internal/transport) over the simulated network
		o.HTTPTransport = nil
		simhttp.SetNetwork(c16tls{net})
		defer simhttp.SetNetwork(nil)
	}
	cfg.Tape = x.t
	simos.StartLog()
	out.res = simrt.Exec(cfg, func() { out.err = PProf(o) })
	x.note(out.res)
	for i, s := range c.srcs {
		s.latency = saved[i]
	}
	out.out, out.hasOut = w.get("out.pb.gz")
	out.ui = ui.all()
	return out
}

func (c *c16case) describe() []string {
	var out []string
	for _, s := range c.srcs {
		out = append(out, s.String())
	}
	return out
}

// classifyUI counts, per source, the error lines that mention its address
// (as a whole token, whatever the wording), and collects the "Fetched k ...
// out of n" summaries and any other error lines.
func classifyUI(c *c16case, lines []uiLine) (perAddr map[string]int, fetchedMsgs []string, other []string) {
	perAddr = map[string]int{}
	isTok := func(b byte) bool {
		return b >= 'a' && b <= 'z' || b >= 'A' && b <= 'Z' || b >= '0' && b <= '9' || b == '.' || b == '_' || b == '-'
	}
	mentions := func(txt, addr string) bool {
		for from := 0; ; {
			i := strings.Index(txt[from:], addr)
			if i < 0 {
				return false
			}
			i += from
			j := i + len(addr)
			if (i == 0 || !isTok(txt[i-1])) && (j == len(txt) || !isTok(txt[j])) {
				return true
			}
			from = i + 1
		}
	}
	for _, l := range lines {
		txt := strings.TrimSuffix(l.Text, "\n")
		if !l.Err {
			continue
		}
		switch {
		case strings.HasPrefix(txt, "Saved profile in "), strings.HasPrefix(txt, "Could not save profile"), strings.HasPrefix(txt, "Could not use temp dir"), strings.HasPrefix(txt, "Generating report in "):
			continue
		}
		matched := false
		for _, s := range c.srcs {
			if mentions(txt, s.addr) {
				perAddr[s.addr]++
				matched = true
			}
		}
		if matched {
			continue
		}
		if strings.HasPrefix(txt, "Fetched ") {
			fetchedMsgs = append(fetchedMsgs, txt)
		} else {
			other = append(other, txt)
		}
	}
	return
}

func c16Check(x *xctx, c *c16case, got c16out) *violation {
	if v := resultViolation(got.res); v != nil {
		return v
	}
	var goodS, goodB, nS, nB int
	for _, s := range c.srcs {
		if s.base {
			nB++
			if s.fault == sfGood {
				goodB++
			}
		} else {
			nS++
			if s.fault == sfGood {
				goodS++
			}
		}
	}
	wantErr := goodS == 0 || (nB > 0 && goodB == 0)
	if wantErr != (got.err != nil) {
		return violf("wrong-exit", "PProf returned err=%v with %d/%d good sources and %d/%d good bases", got.err, goodS, nS, goodB, nB)
	}
	// 4. error accounting
	perAddr, fetched, other := classifyUI(c, got.ui)
	for _, s := range c.srcs {
		want := 0
		if s.fault != sfGood {
			want = 1
		}
		// When the whole run fails early (no source) the base group still reports its own failures.
		if perAddr[s.addr] != want {
			return violf("error-accounting", "source %s: %d error lines, expected %d; UI: %v", s, perAddr[s.addr], want, uiTexts(got.ui))
		}
	}
	// The "Fetched k source profiles out of n" summary is not part of the
	// property's statement: only measured, not demanded.
	if len(fetched) > 0 {
		x.probe("fetched_k_of_n_summary_printed")
	}
	if len(other) > 0 {
		x.probe("other_ui_error_lines")
	}
	if got.err != nil {
		if got.hasOut {
			return violf("output-despite-error", "PProf failed (%v) but wrote a report", got.err)
		}
		return nil
	}
	// 1. reference model
	if !got.hasOut {
		return violf("no-output", "PProf succeeded but wrote no report")
	}
	p, err := profile.Parse(bytes.NewReader(got.out))
	if err != nil {
		return violf("bad-output", "report does not parse: %v", err)
	}
	gotM, err := canonProfile(p)
	if err != nil {
		return violf("bad-output", "%v", err)
	}
	want := c16Expected(c.srcs, c.diffBase)
	if gotM.String() != want.String() {
		return violf("merge-mismatch", "report holds {%s}, the good sources add up to {%s}; case %v", gotM, want, c.describe())
	}
	return nil
}

func uiTexts(ls []uiLine) []string {
	var out []string
	for _, l := range ls {
		out = append(out, strings.TrimSuffix(l.Text, "\n"))
	}
	return out
}

func uiMultiset(ls []uiLine) string {
	out := uiTexts(ls)
	sort.Strings(out)
	return strings.Join(out, "\n")
}

func c16SchedCfg(t *simrt.Tape, nsrc int) simrt.Config {
	K := simrt.KCfg
	cfg := simrt.Config{MaxSteps: 3_000_000}
	switch t.Choose(K, 4) {
	case 0:
		cfg.Strategy = simrt.StratRunToBlock
	case 1:
		cfg.Strategy = simrt.StratRandom
		cfg.SwitchT = []int{26, 128, 3}[t.Choose(K, 3)]
	case 2:
		cfg.Strategy = simrt.StratRandom
		cfg.SwitchT = 128
		cfg.PreemptMean = []int{20, 200}[t.Choose(K, 2)]
	case 3:
		cfg.Strategy = simrt.StratPCT
		cfg.PCTDepth = 1 + t.Choose(K, 3)
		cfg.PCTSteps = 40 * (nsrc + 2)
	}
	return cfg
}

func runC16(x *xctx) *violation {
	t := x.t
	K := simrt.KGen
	if t.Choose(simrt.KCfg, 8) == 1 {
		return c16Exhaustive(x)
	}
	// number of sources: weighted to small n, with the chunk boundaries.
	var n int
	switch k := t.Choose(K, 20); {
	case k < 11:
		n = 1 + t.Choose(K, 6)
	case k < 14:
		n = 7 + t.Choose(K, 60) // one chunk, well beyond a handful
	case k < 19:
		n = []int{127, 128, 129, 130}[t.Choose(K, 4)]
	default:
		n = []int{255, 256, 257, 300, 384, 385, 520}[t.Choose(K, 7)]
	}
	if t.Bool(K, 8) {
		n = dictSize(t, 300, n) // a source count at a threshold of the code (minus one, exact, plus one)
		if n < 1 {
			n = 1
		}
	}
	nb := 0
	if t.Bool(K, 35) {
		nb = 1 + t.Choose(K, 3)
	}
	c := &c16case{diffBase: nb > 0 && t.Bool(K, 40), hasBase: nb > 0, saveENOSPC: t.Bool(simrt.KFault, 30), realTransport: t.Bool(K, 40)}
	if c.realTransport && t.Bool(K, 30) {
		c.tlsCA = 1 + t.Choose(K, 2)
	}
	pctFail := []int{0, 15, 40, 70, 97}[t.Choose(simrt.KFault, 5)]
	multiBuild := t.Bool(K, 25) // the same binary name in several builds, some of them installed locally
	if multiBuild {
		for _, id := range []string{"b1d", "b2d", "b3d"} {
			if t.Bool(K, 60) {
				c.binaries = append(c.binaries, id)
			}
		}
	}
	fileOnly := n > 10 && t.Bool(K, 50)
	commented := t.Bool(K, 60)
	// With several 128-source chunks: one whole chunk (the first, a middle or
	// the last one) in which every source fails.
	deadChunk := -1
	if n > 128 && t.Bool(K, 30) {
		deadChunk = t.Choose(K, (n+127)/128)
	}
	for i := 0; i < n+nb; i++ {
		s := &c16src{idx: i, base: i >= n}
		s.kind = t.Choose(K, 3)
		if t.Bool(K, 12) {
			s.kind = skPerf
		}
		if fileOnly {
			s.kind = skFile
		}
		s.fault = c16FaultFor(t, s.kind, pctFail)
		if deadChunk >= 0 && i < n && i/128 == deadChunk {
			s.fault = c16FaultFor(t, s.kind, 100)
		}
		s.samples = c16GenSamples(t)
		s.tornAt = 1 + t.Choose(simrt.KFault, 200)
		if commented {
			s.comment = fmt.Sprintf("src%03d", i)
		}
		if c.realTransport && s.kind == skURL {
			s.scheme = t.Choose(K, 4)
			if s.fault == sfGood && ((s.scheme == 2 && c.tlsCA == 0) || c.tlsCA == 2) {
				s.fault = sfCert
			}
		}
		if multiBuild {
			s.buildID = []string{"b1d", "b2d", "b3d"}[t.Choose(K, 3)]
			if t.Bool(K, 40) {
				s.layout = 1
			}
		}
		if s.kind != skFile {
			s.latency = int64(t.Choose(simrt.KLatency, 50)) * int64(time.Millisecond)
		}
		if s.kind == skURL && n+nb <= 8 && t.Bool(simrt.KLatency, 15) {
			s.slowSecs = []int{30, 90, 120, 200}[t.Choose(simrt.KLatency, 4)]
		}
		s.materialize()
		if s.kind == skURL {
			c.remote = true
		}
		c.srcs = append(c.srcs, s)
	}
	cfg := c16SchedCfg(t, n+nb)
	x.tr("case: %v diff_base=%v", c.describe(), c.diffBase)
	got := c.run(x, cfg, false, false)
	if v := c16Check(x, c, got); v != nil {
		return v
	}
	// 2. schedule independence: same case, sequential schedule, no latencies.
	ref := c.run(x, simrt.Config{Strategy: simrt.StratRunToBlock}, false, true)
	if v := c16Check(x, c, ref); v != nil {
		v.Class = "seq-" + v.Class
		return v
	}
	if (got.err == nil) != (ref.err == nil) || (got.err != nil && got.err.Error() != ref.err.Error()) {
		return violf("schedule-dependent", "error differs between schedules: %v vs %v", got.err, ref.err)
	}
	if !bytes.Equal(got.out, ref.out) {
		return violf("schedule-dependent", "report bytes differ between the seeded schedule and the sequential one (%d vs %d bytes)", len(got.out), len(ref.out))
	}
	if got.msrc != ref.msrc {
		return violf("schedule-dependent", "the mapping sources handed to symbolization (which decide the host that is asked for symbols) differ between the seeded schedule and the sequential one: %s", firstDiff(got.msrc, ref.msrc))
	}
	if uiMultiset(got.ui) != uiMultiset(ref.ui) {
		return violf("schedule-dependent", "UI messages differ between schedules:\n%s\n--- vs ---\n%s", uiMultiset(got.ui), uiMultiset(ref.ui))
	}
	// 3. failure independence: only the good sources on the command line.
	nFail := 0
	for _, s := range c.srcs {
		if s.fault != sfGood {
			nFail++
		}
	}
	if got.err == nil && nFail > 0 {
		only := c.run(x, simrt.Config{Strategy: simrt.StratRunToBlock}, true, true)
		if only.err != nil {
			return violf("failure-dependent", "the run with only the good sources fails: %v", only.err)
		}
		// Compared as canonical (stack, labels) -> values maps, not as bytes: the
		// 128-source chunking depends on the length of the source list, and a
		// stack whose values cancel inside one chunk re-appears at a different
		// position, which changes the sample order but not the report's content.
		pa, errA := profile.Parse(bytes.NewReader(only.out))
		pb, errB := profile.Parse(bytes.NewReader(got.out))
		if errA != nil || errB != nil {
			return violf("bad-output", "report does not parse: %v %v", errA, errB)
		}
		ma, _ := canonProfile(pa)
		mb, _ := canonProfile(pb)
		if ma.String() != mb.String() {
			return violf("failure-dependent", "report {%s} differs from the run that lists only the good sources {%s}", mb, ma)
		}
		if bytes.Equal(only.out, got.out) {
			x.probe("bytes_equal_to_only_good_run")
		} else if n <= 128 && nb <= 128 {
			// One chunk each for sources and bases, with or without the failed
			// ones: the good sources are merged in the same (command-line) order
			// in both runs, so the reports are the same bytes.
			return violf("failure-dependent", "with %d sources and %d bases (one chunk each) the report differs in bytes from the run that lists only the good sources, although its content is the same: the good sources were not combined in command-line order: %s",
				n, nb, firstDiff(pb.String(), pa.String()))
		}
	}
	// 4. command-line order: the comments of the merged profile name the good
	// plain sources in the order they were listed (each source carries one).
	if got.err == nil && commented && !c.perfOnlyOutput() {
		if pm, err := profile.Parse(bytes.NewReader(got.out)); err == nil {
			var want, have []string
			for _, s := range c.srcs {
				if !s.base && s.fault == sfGood && s.comment != "" {
					want = append(want, s.comment)
				}
			}
			isBase := map[string]bool{}
			for _, s := range c.srcs {
				if s.base {
					isBase[s.comment] = true
				}
			}
			for _, cm := range pm.Comments {
				if strings.HasPrefix(cm, "src") && !isBase[cm] {
					have = append(have, cm)
				}
			}
			if strings.Join(have, ",") != strings.Join(want, ",") {
				return violf("merge-order", "the merged profile lists its sources as %v; the good sources on the command line are, in order, %v", have, want)
			}
			x.probe("merge_order_checked")
		}
	}
	// probes and measures
	failSig, firstChunkAllFail, lastGoodOnly := "", n >= 128, false
	for i, s := range c.srcs {
		if s.fault != sfGood {
			failSig += "x"
			x.fault("src:"+sfNames[s.fault], 1)
			if !s.base && i >= 128 {
				x.probe("failure_in_chunk_2plus")
			}
		} else {
			failSig += "."
			if !s.base && i < 128 {
				firstChunkAllFail = false
			}
		}
	}
	if firstChunkAllFail {
		x.probe("whole_first_chunk_failed")
	}
	_ = lastGoodOnly
	if nb > 0 {
		allB := true
		for _, s := range c.srcs {
			if s.base && s.fault == sfGood {
				allB = false
			}
		}
		if allB {
			x.probe("all_bases_failed")
		}
	}
	if n >= 127 {
		x.probe("across_chunk_boundary")
	}
	if c.remote && got.err == nil {
		x.probe("remote_profile_saved_path")
	}
	if got.res.SimTimeNs >= int64(65*time.Second) {
		x.probe("timeout_reached_in_simulated_time")
	}
	if len(failSig) > 24 {
		failSig = fmt.Sprintf("%d:%x", len(failSig), hashStr(failSig))
	}
	x.states[fmt.Sprintf("n=%d fail=%s order=%016x", n+nb, failSig, got.res.SwitchSig)] = true
	if n+nb >= 2 && got.res.Switches > 0 {
		x.nontriv[fmt.Sprintf("%v|%016x", c.describe(), got.res.SwitchSig)] = true
	}
	x.sample = map[string]interface{}{"mode": "sampled", "sources": c.describe(), "diff_base": c.diffBase, "strategy": cfg.Strategy, "switches": got.res.Switches, "pprof_error": fmt.Sprint(got.err)}
	return nil
}

func hashStr(s string) uint64 {
	h := uint64(14695981039346656037)
	for i := 0; i < len(s); i++ {
		h = (h ^ uint64(s[i])) * 1099511628211
	}
	return h
}

// c16Exhaustive enumerates, for n<=3 (quick) or n<=4 (thorough) remote
// sources, every failing subset x every completion order (forced through
// distinct simulated latencies under the run-to-block schedule).
func c16Exhaustive(x *xctx) *violation {
	t := x.t
	K := simrt.KGen
	maxN := 3
	if x.tier == "thorough" {
		maxN = 4
	}
	n := 2 + t.Choose(K, maxN-1)
	base := make([]*c16src, n)
	for i := range base {
		s := &c16src{idx: i, kind: []int{skURL, skFetcher}[t.Choose(K, 2)], samples: c16GenSamples(t), tornAt: 1 + t.Choose(simrt.KFault, 100)}
		base[i] = s
	}
	failKind := map[int][]int{skURL: {sfHTTP404, sfGarbage, sfTorn, sfStall, sfMissing}, skFetcher: {sfFetcherErr, sfInvalid}}
	perms := permutations(n)
	count := 0
	for mask := 0; mask < 1<<n; mask++ {
		for _, perm := range perms {
			c := &c16case{}
			for i, b := range base {
				s := *b
				s.fault = sfGood
				if mask&(1<<i) != 0 {
					fk := failKind[s.kind]
					s.fault = fk[(i+mask)%len(fk)]
				}
				s.latency = int64(1+perm[i]) * int64(10*time.Millisecond)
				if s.fault == sfStall {
					// a stalled source completes last whatever its rank
					x.probe("stall_in_exhaustive")
				}
				s.materialize()
				c.srcs = append(c.srcs, &s)
			}
			got := c.run(x, simrt.Config{Strategy: simrt.StratRunToBlock}, false, false)
			if v := c16Check(x, c, got); v != nil {
				x.tr("exhaustive case: %v", c.describe())
				v.Detail = fmt.Sprintf("failing subset %0*b, completion ranks %v: %s", n, mask, perm, v.Detail)
				return v
			}
			count++
			x.states[fmt.Sprintf("exh n=%d mask=%b perm=%v", n, mask, perm)] = true
		}
	}
	x.stats["exhaustive_cases"] += int64(count)
	x.probe("exhaustive_block_completed")
	x.nontriv[fmt.Sprintf("exh:%d:%v", n, base[0].samples)] = true
	x.sample = map[string]interface{}{"mode": "exhaustive", "n": n, "failing_subsets": 1 << n, "completion_orders": len(perms), "cases": count}
	return nil
}

func permutations(n int) [][]int {
	var out [][]int
	p := make([]int, n)
	for i := range p {
		p[i] = i
	}
	var rec func(k int)
	rec = func(k int) {
		if k == n {
			out = append(out, append([]int{}, p...))
			return
		}
		for i := k; i < n; i++ {
			p[k], p[i] = p[i], p[k]
			rec(k + 1)
			p[k], p[i] = p[i], p[k]
		}
	}
	rec(0)
	return out
}
