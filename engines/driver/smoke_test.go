//go:build verif

package driver

import (
	"testing"

	"github.com/google/pprof/internal/verifsim/simrt"
)

func TestVerifSmoke(t *testing.T) {
	t.Log(simrt.ReinitPackages())
	simrt.ReinitAll()
	res := simrt.Exec(simrt.Config{Tape: simrt.NewTape(1)}, func() {
		setCurrentConfig(defaultConfig())
	})
	t.Logf("%+v", res)
}
