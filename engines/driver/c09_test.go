//go:build verif

package driver

// C09: no profile content, option value or typed command crashes pprof.
//
// The input x configuration part of the quantifier is workload generation;
// what simulation adds is histories (does the session survive and stay
// usable?) and faults in the things pprof talks to (terminal, output writer,
// object tool, disk, external tools). driver.PProf runs end to end with
// simulated plug-ins; a panic anywhere (main task, fetch tasks, web handlers,
// the completer), a deadlock or exceeding the step cap is a violation, and
// so is a session that stops reading its input.

import (
	"bytes"
	"errors"
	"fmt"
	"io"
	"net/url"
	"regexp"
	"strings"
	"syscall"

	"github.com/google/pprof/internal/plugin"
	"github.com/google/pprof/internal/verifsim/simexec"
	"github.com/google/pprof/internal/verifsim/simos"
	"github.com/google/pprof/internal/verifsim/simrt"
	"github.com/google/pprof/profile"
)

func init() {
	register(&engine{name: "c09", prop: "C09", run: runC09})
}

var c09Noise = []string{"main.обработчик_входящих_сообщений_и_событий_очереди_обработки", "ünï" + strings.Repeat("é", 45), strings.Repeat("日本語", 15), "", " ", "(", ")", "[", "*", "+", "?", "\\", "a(b", "[[:alpha:", "(?P<n>", "\x00", "\xff\xfe", "ünï", "99999999999999999999", "-99999999999999999999", "1e400", "NaN", "0x", "1kb:", ":1kb", "99999999999999999999kb:", "1:99999999999999999999mb", "9223372036854775807", "-9223372036854775808", "18446744073709551616b", "1gb:1b", "k=", "=v", "k=1:2", "a=b=c", ">", ">>", "> ", "|", ";", "-", "--", "--cum", "-cum", "%s%n", "{{.}}", strings.Repeat("x", 300), "top", "=", "==", "//:", "tag=//:x", "\t"}

var c09Commands = []string{"top", "top10", "top -5", "text", "tree", "peek", "peek .", "list", "list .", "weblist .", "disasm .", "tags", "tags k", "traces", "raw", "proto", "topproto", "dot", "callgrind", "comments", "svg", "png", "pdf", "ps", "gif", "web", "eog", "evince", "gv", "kcachegrind", "help", "help top", "help focus", "help zzz", "o", "options", "sample_index", "unit", "quit2", "toptop", "top0", "top00000000000000000000001"}

var c09Options = []string{"focus", "ignore", "hide", "show", "show_from", "tagfocus", "tagignore", "tagshow", "taghide", "tagroot", "tagleaf", "prune_from", "nodecount", "nodefraction", "edgefraction", "divide_by", "unit", "sample_index", "sort", "granularity", "output", "source_path", "trim_path", "mean", "trim", "call_tree", "compact_labels", "drop_negative", "intel_syntax", "noinlines", "normalize", "relative_percentages", "showcolumns", "cum", "flat", "lines", "files", "functions", "addresses", "filefunctions", "bogus_option"}

func c09Value(t *simrt.Tape) string {
	K := simrt.KGen
	if t.Bool(K, 12) {
		if t.Bool(K, 50) {
			return dictStr(t, "main")
		}
		// a multi-byte or ASCII string whose length sits at a threshold of the code
		return strings.Repeat([]string{"x", "é", "日"}[t.Choose(K, 3)], dictSize(t, 600, 81))
	}
	switch t.Choose(K, 4) {
	case 0:
		return c09Noise[t.Choose(K, len(c09Noise))]
	case 1:
		return c10Regexps[t.Choose(K, len(c10Regexps))]
	case 2:
		return []string{"0", "1", "-1", "5", "0.5", "true", "false", "t", "yes", "maybe", "auto", "ms", "kb", "lightyears", "samples", "cpu", "2", "99", "cum", "lines"}[t.Choose(K, 20)]
	}
	return c10TagRx[t.Choose(K, len(c10TagRx))]
}

func genC09Line(t *simrt.Tape) string {
	K := simrt.KGen
	if t.Bool(K, 12) {
		// commands that start an external viewer, bare (no redirection): their
		// behaviour depends on which tools exist and on earlier such commands
		return []string{"web", "weblist .", "gv", "eog", "evince", "kcachegrind", "web main", "svg", "png"}[t.Choose(K, 9)]
	}
	switch t.Choose(K, 10) {
	case 0, 1, 2:
		c := c09Commands[t.Choose(K, len(c09Commands))]
		if v := treeVocab(); t.Bool(K, 30) {
			c = v.commands[t.Choose(K, len(v.commands))]
		}
		n := t.Choose(K, 3)
		for i := 0; i < n; i++ {
			c += " " + c09Value(t)
		}
		if t.Bool(K, 50) {
			c += " >" + []string{"out", "", " out2", "/nonexistent/dir/x", "out out"}[t.Choose(K, 5)]
		}
		return c
	case 3, 4, 5:
		o := c09Options[t.Choose(K, len(c09Options))]
		if v := treeVocab(); t.Bool(K, 30) {
			o = v.options[t.Choose(K, len(v.options))]
		}
		switch t.Choose(K, 5) {
		case 0:
			return o
		case 1:
			return o + "="
		case 2:
			return o + " = " + c09Value(t)
		}
		return o + "=" + c09Value(t)
	case 6:
		return c09Noise[t.Choose(K, len(c09Noise))]
	case 7:
		return c09Noise[t.Choose(K, len(c09Noise))] + " " + c09Noise[t.Choose(K, len(c09Noise))]
	case 8:
		return []string{":", "samples", "cpu", "total_cpu", "mean_samples", "alloc_space", "inuse_space"}[t.Choose(K, 7)]
	}
	return c09Commands[t.Choose(K, len(c09Commands))] + c09Noise[t.Choose(K, len(c09Noise))]
}

// c09Obj is an ObjTool that fails or answers nonsense, per swarm setting.
type c09Obj struct {
	mode int // 0 all fail, 1 nonsense answers
}

type c09File struct{ name string }

func (f c09File) Name() string                        { return f.name }
func (f c09File) ObjAddr(addr uint64) (uint64, error) { return addr ^ 0xfff, nil }
func (f c09File) BuildID() string                     { return "" }
func (f c09File) SourceLine(addr uint64) ([]plugin.Frame, error) {
	if addr%3 == 0 {
		return nil, errors.New("no line info")
	}
	return []plugin.Frame{{Func: "", File: "", Line: -1}, {Func: oddStrings[int(addr%uint64(len(oddStrings)))], File: "/src/main.go", Line: int(addr % 200)}}, nil
}
func (f c09File) Symbols(r *regexp.Regexp, addr uint64) ([]*plugin.Sym, error) {
	// Unusual but well-formed answers (every symbol has a name, End >= Start).
	return []*plugin.Sym{{Name: []string{"weird"}, File: f.name, Start: addr, End: addr + 15}, {Name: []string{"a", "b"}, File: "", Start: 0, End: ^uint64(0)}}, nil
}
func (f c09File) Close() error { return errors.New("close failed") }

func (o c09Obj) Open(file string, start, limit, offset uint64, relocationSymbol string) (plugin.ObjFile, error) {
	simrt.Point("obj-open", 0)
	if o.mode == 0 || strings.Contains(file, "missing") {
		return nil, fmt.Errorf("cannot open %s", file)
	}
	return c09File{file}, nil
}
func (o c09Obj) Disasm(file string, start, end uint64, intelSyntax bool) ([]plugin.Inst, error) {
	if o.mode == 0 {
		return nil, errors.New("objdump missing")
	}
	return []plugin.Inst{{Addr: start, Text: "nop", Function: "", File: "", Line: -5}, {Addr: end + 10, Text: "", Function: "f", File: "/src/main.go", Line: 1 << 30}, {Addr: 0, Text: "ret"}}, nil
}

var c09Viewers = []string{"chrome", "google-chrome", "chromium", "firefox", "sensible-browser", "xdg-open", "eog", "evince", "gv", "kcachegrind"}

type c09swarm struct {
	viewers    int
	writerFail bool
	obj        int // 0 fail, 1 nonsense, 2 nop
	dot        bool
	browser    bool
	diskRate   int
	readErr    bool
	term       bool
}

func genC09Swarm(t *simrt.Tape) c09swarm {
	K := simrt.KCfg
	viewers := 0
	if t.Bool(K, 60) {
		viewers = t.Choose(K, 1<<len(c09Viewers))
	}
	return c09swarm{viewers: viewers, writerFail: t.Bool(K, 15), obj: t.Choose(K, 3), dot: t.Bool(K, 60), browser: t.Bool(K, 30), diskRate: []int{0, 0, 20, 100}[t.Choose(K, 4)], readErr: t.Bool(K, 20), term: t.Bool(K, 30)}
}

func (s c09swarm) install() plugin.ObjTool {
	installSources()
	if s.dot {
		installTools(true)
	}
	// every viewer is installed or not independently (s.viewers is a bit set)
	for i, b := range c09Viewers {
		if s.viewers&(1<<i) != 0 {
			simexec.Register(b, &simexec.Program{Batch: func(args []string, stdin []byte) ([]byte, []byte, int) { return nil, nil, 0 }})
		}
	}
	if s.diskRate > 0 {
		simos.SetRandomFaults(s.diskRate, simos.OpCreate, simos.OpWrite, simos.OpClose, simos.OpRead, simos.OpMkdir, simos.OpRemove)
	}
	switch s.obj {
	case 0:
		return c09Obj{0}
	case 1:
		return c09Obj{1}
	}
	return nopObj{}
}

func runC09(x *xctx) *violation {
	switch m := x.t.Choose(simrt.KCfg, 10); {
	case m < 4:
		return c09Interactive(x)
	case m < 7:
		return c09CommandLine(x)
	default:
		return c09Web(x)
	}
}

func c09Profile(t *simrt.Tape) []byte {
	return encodeProfile(genProfile(t, genOpts{odd: true, labels: true, inlines: true, negative: true, maxFuncs: 6, maxSamples: 6}))
}

func c09Interactive(x *xctx) *violation {
	t := x.t
	K := simrt.KGen
	prof := c09Profile(t)
	sw := genC09Swarm(t)
	n := 1 + t.Choose(K, 14)
	var lines []string
	hostile := map[int]bool{}
	for i := 0; i < n; i++ {
		hostile[len(lines)] = true
		lines = append(lines, genC09Line(t))
		lines = append(lines, fmt.Sprintf("top >probe%d", i)) // usability probe
	}
	endWithQuit := t.Bool(K, 50)
	if endWithQuit {
		lines = append(lines, []string{"quit", "exit", "q"}[t.Choose(K, 3)])
	}
	for _, l := range lines {
		x.tr("line %q", l)
	}
	prefixes := []string{"", "t", "to", "top ", "top ma", "help ", "help t", "foc", "tags x", "peek -ma", "zz zz zz", "\x00", "list " + oddStrings[t.Choose(K, len(oddStrings))]}
	freshProcess(true)
	obj := sw.install()
	simos.PutFile("/sim/cwd/prof.pb.gz", prof)
	ui := &simUI{lines: lines, term: sw.term}
	if sw.readErr {
		ui.readErr = errors.New("read /dev/tty: input/output error")
	}
	var completerPanic string
	reads := 0
	ui.onRead = func(u *simUI, prompt string) {
		reads++
		if u.complete != nil {
			func() {
				defer func() {
					if r := recover(); r != nil && !simrt.IsAbort(r) {
						completerPanic = fmt.Sprintf("completer(%q) panicked: %v", prefixes[reads%len(prefixes)], r)
					}
				}()
				u.complete(prefixes[reads%len(prefixes)])
				u.complete(lines[(reads*7)%len(lines)])
			}()
		}
	}
	w := newWriter()
	if sw.writerFail {
		w.failAll = errors.New("open: permission denied")
	}
	// the session may have been started with option flags
	var sessFlags []string
	for i, nfl := 0, t.Choose(K, 3); i < nfl; i++ {
		sessFlags = append(sessFlags, []string{"-sample_index=" + []string{"0", "1", "2", "7", "-1", "samples", "99999999999"}[t.Choose(K, 7)], "-nodecount=" + c09Value(t), "-focus=" + c09Value(t), "-tagfocus=" + c09Value(t), "-unit=" + c09Value(t), "-mean", "-lines", "-divide_by=0", "-trim=false", "-call_tree", "-diff_base=base.pb.gz", "-base=base.pb.gz"}[t.Choose(K, 12)])
	}
	simos.PutFile("/sim/cwd/base.pb.gz", c09BaseProfile(t, prof))
	x.tr("flags %q", sessFlags)
	o := &plugin.Options{Flagset: newFlags(append(sessFlags, "prof.pb.gz")), UI: ui, Writer: w, Sym: nopSym{}, Obj: obj, HTTPTransport: failTransport{}}
	var perr error
	simos.StartLog()
	res := simrt.Exec(simrt.Config{Tape: t, Strategy: simrt.StratRunToBlock}, func() { perr = PProf(o) })
	x.note(res)
	if v := resultViolation(res); v != nil {
		return v
	}
	if completerPanic != "" {
		return violf("panic", "%s", completerPanic)
	}
	if ex, code := simos.Exited(); ex {
		return violf("abnormal-exit", "pprof called os.Exit(%d) in an interactive session", code)
	}
	wantReads := len(lines) + 1
	if endWithQuit {
		wantReads = len(lines)
	}
	// A line like "quit"/"exit"/"q" among the hostile ones ends the session legitimately.
	early := false
	for i, l := range lines {
		f := strings.Fields(l)
		if len(f) > 0 && (f[0] == "quit" || f[0] == "exit" || f[0] == "q") && !strings.Contains(l, "=") {
			if i+1 < wantReads {
				wantReads = i + 1
				early = true
			}
			break
		}
	}
	if reads == 0 && perr != nil {
		// The profile could not be fetched (e.g. injected disk error): reported as an error.
		x.probe("fetch_failed_before_session")
		x.sample = map[string]interface{}{"mode": "interactive", "error": perr.Error()}
		return nil
	}
	if reads != wantReads {
		return violf("session-unusable", "interactive session stopped reading its input: read %d lines, expected %d (error %v); last messages: %s", reads, wantReads, perr, short(ui.transcript(max0(len(ui.out)-4)), 500))
	}
	if sw.readErr && !endWithQuit && !early {
		if perr == nil {
			return violf("read-error-swallowed", "UI read error was not reported by PProf")
		}
	} else if perr != nil {
		return violf("session-error", "interactive session returned %v", perr)
	}
	// Every probe must have produced a report or an error message.
	for i := 0; i < n; i++ {
		if _, ok := w.get(fmt.Sprintf("probe%d", i)); ok {
			x.probe("probe_produced_report")
		}
	}
	x.nontriv["i:"+strings.Join(lines, "\n")] = true
	x.states[fmt.Sprintf("swarm:%+v", sw)] = true
	x.sample = map[string]interface{}{"mode": "interactive", "lines": lines, "swarm": fmt.Sprintf("%+v", sw)}
	return nil
}

func max0(i int) int {
	if i < 0 {
		return 0
	}
	return i
}

// c09Features are option settings that are each valid on their own.
var c09Features = []string{"-normalize", "-base=base.pb.gz", "-diff_base=base.pb.gz", "-base=prof.pb.gz", "-mean", "-relative_percentages", "-call_tree", "-tagroot=k", "-tagleaf=tenant", "-trim=false",
	"-nodecount=2", "-nodefraction=0.3", "-edgefraction=0.5", "-focus=main", "-ignore=foo", "-hide=bar", "-show=main|foo", "-show_from=foo", "-prune_from=bar", "-tagfocus=v1", "-tagignore=v2", "-tagshow=k", "-taghide=tenant",
	"-sample_index=1", "-sample_index=0", "-drop_negative", "-noinlines", "-lines", "-files", "-addresses", "-filefunctions", "-divide_by=2", "-unit=ms", "-compact_labels", "-showcolumns", "-cum", "-symbolize=none", "-symbolize=local", "-add_comment=note"}

func c09CommandLine(x *xctx) *violation {
	t := x.t
	K := simrt.KGen
	prof := c09Profile(t)
	sw := genC09Swarm(t)
	var args []string
	n := t.Choose(K, 5)
	if t.Bool(K, 25) {
		// feature interactions: two to four features with values that are valid
		// on their own, so that the run gets past option parsing and the
		// features meet each other in the fetch and report code
		n = 0
		for i, nf := 0, 2+t.Choose(K, 3); i < nf; i++ {
			args = append(args, c09Features[t.Choose(K, len(c09Features))])
		}
	}
	for i := 0; i < n; i++ {
		o := c09Options[t.Choose(K, len(c09Options))]
		switch t.Choose(K, 3) {
		case 0:
			args = append(args, "-"+o)
		default:
			args = append(args, "-"+o+"="+c09Value(t))
		}
	}
	for i, nf := 0, t.Choose(K, 3); i < nf; i++ {
		// any flag the tree registers, with a value of its type (or not)
		args = append(args, treeFlag(t, []string{c09Value(t)}))
	}
	if t.Bool(K, 85) {
		c := []string{"top", "text", "tree", "peek", "list", "weblist", "disasm", "tags", "traces", "raw", "proto", "topproto", "dot", "callgrind", "comments", "svg", "png", "web", "kcachegrind", "eog"}[t.Choose(K, 20)]
		if c == "peek" || c == "list" || c == "weblist" || c == "disasm" {
			args = append(args, "-"+c+"="+c09Value(t))
		} else {
			args = append(args, "-"+c)
		}
	}
	if t.Bool(K, 20) {
		args = append(args, "-symbolize="+[]string{"none", "local", "remote", "force", "bogus", "demangle=full"}[t.Choose(K, 6)])
	}
	if t.Bool(K, 15) {
		args = append(args, "-buildid="+c09Value(t))
	}
	if t.Bool(K, 15) {
		args = append(args, "-tools="+c09Value(t))
	}
	if t.Bool(K, 60) {
		args = append(args, "-output=out")
	}
	if t.Bool(K, 15) {
		args = append(args, "-base="+[]string{"prof.pb.gz", "base.pb.gz"}[t.Choose(K, 2)])
	}
	if t.Bool(K, 12) {
		args = append(args, "-diff_base="+[]string{"missing.pb.gz", "prof.pb.gz", "base.pb.gz"}[t.Choose(K, 3)])
	}
	base := c09BaseProfile(t, prof)
	args = append(args, "prof.pb.gz")
	if t.Bool(K, 15) {
		args = append(args, []string{"prof.pb.gz", "missing", "http://host/x"}[t.Choose(K, 3)])
	}
	x.tr("pprof %q", args)
	freshProcess(true)
	obj := sw.install()
	simos.PutFile("/sim/cwd/prof.pb.gz", prof)
	simos.PutFile("/sim/cwd/base.pb.gz", base)
	ui := newTaskUI()
	ui.term = sw.term
	w := newWriter()
	if sw.writerFail {
		w.failAll = errors.New("open: permission denied")
	}
	o := &plugin.Options{Flagset: newFlags(args), UI: ui, Writer: w, Obj: obj, HTTPTransport: failTransport{}}
	if !strings.Contains(strings.Join(args, " "), "-symbolize") {
		o.Sym = nopSym{}
	}
	var perr error
	res := simrt.Exec(simrt.Config{Tape: t, Strategy: simrt.StratRandom, SwitchT: 64}, func() { perr = PProf(o) })
	x.note(res)
	if v := resultViolation(res); v != nil {
		return v
	}
	if ex, code := simos.Exited(); ex {
		return violf("abnormal-exit", "pprof called os.Exit(%d)", code)
	}
	if perr != nil {
		x.probe("error_reported")
	} else {
		x.probe("report_produced")
	}
	x.nontriv["c:"+strings.Join(args, " ")] = true
	x.sample = map[string]interface{}{"mode": "command-line", "args": args, "error": fmt.Sprint(perr)}
	return nil
}

func c09Web(x *xctx) *violation {
	t := x.t
	K := simrt.KGen
	prof := c09Profile(t)
	sw := genC09Swarm(t)
	n := 1 + t.Choose(K, 10)
	var reqs []string
	for i := 0; i < n; i++ {
		path := []string{"/", "/top", "/peek", "/flamegraph", "/source", "/disasm", "/download", "/saveconfig", "/deleteconfig", "/flamegraph2", "/flamegraphold"}[t.Choose(K, 11)]
		q := url.Values{}
		m := t.Choose(K, 4)
		for j := 0; j < m; j++ {
			key := []string{"f", "i", "h", "s", "sf", "tf", "ti", "ts", "th", "n", "nf", "ef", "g", "sort", "si", "unit", "calltree", "trim", "config", "prunefrom", "mean", "norm", "zzz"}[t.Choose(K, 23)]
			if v := treeVocab(); t.Bool(K, 25) {
				key = v.urlparams[t.Choose(K, len(v.urlparams))]
			}
			q.Set(key, c09Value(t))
		}
		r := path
		if len(q) > 0 {
			r += "?" + q.Encode()
		}
		if t.Bool(K, 10) {
			r = path + "?" + []string{"%zz", "a=%", "&&&", "f=%00", ";;"}[t.Choose(K, 5)]
		}
		if t.Bool(K, 8) {
			// the client goes away while the answer is being sent
			r = fmt.Sprintf("!%d!%s", []int{0, 1, 700, 4096, 30000}[t.Choose(K, 5)], r)
		}
		reqs = append(reqs, r)
		reqs = append(reqs, "/top") // usability probe
	}
	for _, r := range reqs {
		x.tr("GET %s", r)
	}
	freshProcess(true)
	sw.install()
	resps := make([]webResp, len(reqs))
	res, perr := withWeb(x, simrt.Config{Strategy: simrt.StratRunToBlock}, prof, func(s *c19session) {
		for i, r := range reqs {
			func() {
				defer func() {
					if e := recover(); e != nil {
						if simrt.IsAbort(e) {
							panic(e)
						}
						resps[i].Panic = fmt.Sprint(e)
					}
				}()
				resps[i] = s.do(r)
			}()
		}
	})
	if v := resultViolation(res); v != nil {
		return v
	}
	if perr != nil {
		// The session never started (e.g. the odd profile was rejected): that is "reports an error".
		x.probe("web_session_not_started")
		x.sample = map[string]interface{}{"mode": "web", "error": perr.Error()}
		return nil
	}
	for i, r := range reqs {
		if resps[i].Panic != "" {
			return violf("panic", "GET %s panicked: %s", r, short(resps[i].Panic, 1500))
		}
		if resps[i].Code == 0 {
			return violf("no-answer", "GET %s got no answer", r)
		}
		x.states[fmt.Sprintf("%s:%d", strings.SplitN(r, "?", 2)[0], resps[i].Code)] = true
	}
	x.nontriv["w:"+strings.Join(reqs, " ")] = true
	x.sample = map[string]interface{}{"mode": "web", "requests": reqs}
	return nil
}

// c09BaseProfile derives a base profile from the session's profile: the same
// stacks with every value column scaled by a seeded factor (0 empties the
// column, -1 flips it), so that diffs meet zero totals and sign changes.
func c09BaseProfile(t *simrt.Tape, prof []byte) (out []byte) {
	// Preparing the workload must not be what trips over a defect of the
	// tree: if it does, the session's own profile serves as the base.
	defer func() {
		if r := recover(); r != nil {
			if simrt.IsAbort(r) {
				panic(r)
			}
			out = prof
		}
	}()
	p, err := profile.ParseData(prof)
	if err != nil {
		return prof
	}
	mult := make([]int64, len(p.SampleType))
	for k := range mult {
		mult[k] = []int64{0, 1, -1, 2}[t.Choose(simrt.KGen, 4)]
	}
	for _, s := range p.Sample {
		for k := range s.Value {
			if k < len(mult) {
				s.Value[k] *= mult[k]
			}
		}
	}
	// The base may have been taken with another set of sample types: one more
	// than the source, or one fewer.
	switch t.Choose(simrt.KGen, 6) {
	case 0:
		p.SampleType = append(p.SampleType, &profile.ValueType{Type: "extra", Unit: "count"})
		for _, s := range p.Sample {
			s.Value = append(s.Value, 3)
		}
	case 1:
		if n := len(p.SampleType); n > 1 {
			p.SampleType = p.SampleType[:n-1]
			for _, s := range p.Sample {
				s.Value = s.Value[:n-1]
			}
		}
	case 2:
		// ... or prepended, so that positions no longer correspond
		p.SampleType = append([]*profile.ValueType{{Type: "extra", Unit: "count"}}, p.SampleType...)
		for _, s := range p.Sample {
			s.Value = append([]int64{3}, s.Value...)
		}
	}
	var buf bytes.Buffer
	if err := p.Write(&buf); err != nil {
		return prof
	}
	return buf.Bytes()
}

var _ = io.EOF
var _ = syscall.EIO
