//go:build verif

package driver

// C08: identical inputs and options give byte-identical output.
//
// Schedule dimension = the order in which Go's runtime hands out map entries
// (made a seeded seam by the instrumenter, see simrt.MapIter), the completion
// order of concurrent fetches, and repeated execution inside one session.
// Oracle = byte equality with the run that uses the canonical map order and
// the sequential schedule. No model of what the bytes should be is needed: a
// non-total ordering shows because the sort's input order is the only thing
// that changed.

import (
	"bytes"
	"fmt"
	"os"
	"path/filepath"
	"sort"
	"strings"

	"github.com/google/pprof/internal/plugin"
	"github.com/google/pprof/internal/verifsim/simos"
	"github.com/google/pprof/internal/verifsim/simrt"
	"github.com/google/pprof/profile"
)

func init() {
	register(&engine{name: "c08", prop: "C08", run: runC08})
}

type c08case struct {
	profs      [][]byte // sources
	bases      [][]byte
	diffBase   bool
	flags      []string // options + command
	web        string   // non-empty: web request instead of a command-line report
	legacy     bool     // the source is a legacy text profile
	badSources int      // further sources that are missing (even) or garbage (odd)
	objMode    int      // 0: no binaries; 1: binaries open, disassembler fails; 2: binaries open and disassemble
}

func (c *c08case) objTool() plugin.ObjTool {
	switch c.objMode {
	case 1:
		return scriptObj{disasmFails: true}
	case 2:
		return scriptObj{}
	case 3:
		return scriptObj{stripped: true}
	}
	return nopObj{}
}

func (c *c08case) String() string {
	if c.web != "" {
		return fmt.Sprintf("%d sources, %d bases(diff=%v), GET %s", len(c.profs), len(c.bases), c.diffBase, c.web)
	}
	return fmt.Sprintf("%d sources, %d bases(diff=%v), pprof %s", len(c.profs), len(c.bases), c.diffBase, strings.Join(c.flags, " "))
}

// key names the report kind, for violation classes.
func (c *c08case) key() string {
	if c.web != "" {
		return strings.SplitN(c.web, "?", 2)[0]
	}
	k := strings.SplitN(c.flags[0], "=", 2)[0]
	for _, f := range c.flags[1:] {
		if f == "-call_tree" {
			k += "+call_tree"
		}
	}
	return k
}

func genC08Case(t *simrt.Tape) *c08case {
	K := simrt.KGen
	c := &c08case{}
	ns := 1 + t.Choose(K, 3)
	nt := 1 + t.Choose(K, 2)
	// Mostly small profiles (ties are dense there); sometimes large enough for
	// the default trimming (nodecount 80, node/edge fractions) to engage.
	mf, ms, md := 6, 8, 4
	if t.Bool(K, 8) {
		mf, ms, md = 150, 120, 8
	}
	mk := func() []byte {
		return encodeProfile(genProfile(t, genOpts{types: nt, tieRich: true, negative: true, labels: true, inlines: true, maxFuncs: mf, maxSamples: ms, maxDepth: md}))
	}
	for i := 0; i < ns; i++ {
		c.profs = append(c.profs, mk())
	}
	if t.Bool(K, 8) {
		// a legacy text profile with a memory map that uses $attr substitution
		c.profs = [][]byte{genLegacyText(t)}
		c.legacy = true
	} else if t.Bool(K, 15) {
		// The same binary installed at two paths: a twin of the first source
		// whose mappings live in another directory (same base name), optionally
		// with both sides unsymbolized. Nodes then differ only in object file.
		strip := t.Bool(K, 50)
		twin := func(data []byte, dir string) []byte {
			p, err := profile.ParseData(data)
			if err != nil {
				panic(err)
			}
			for _, m := range p.Mapping {
				m.File = dir + "/" + filepath.Base(m.File)
			}
			if strip {
				for _, l := range p.Location {
					l.Line = nil
				}
				p.Function = nil
			}
			return encodeProfile(p)
		}
		c.profs[0] = twin(c.profs[0], "/opt/a/bin")
		c.bases = append(c.bases, twin(c.profs[0], "/opt/b/bin"))
		c.diffBase = t.Bool(K, 50)
	} else if t.Bool(K, 50) {
		nb := 1 + t.Choose(K, 2)
		for i := 0; i < nb; i++ {
			if t.Bool(K, 50) {
				// a base drawn from the sources themselves: profile diffs are where +w/-w pairs come from
				c.bases = append(c.bases, c.profs[t.Choose(K, len(c.profs))])
			} else {
				c.bases = append(c.bases, mk())
			}
		}
		c.diffBase = t.Bool(K, 50)
	}
	if t.Bool(K, 12) {
		c.badSources = 1 + t.Choose(K, 3)
	}
	if t.Bool(K, 25) {
		c.web = []string{"/top", "/peek?f=.", "/flamegraph", "/", "/?calltree=t", "/top?sort=cum", "/?g=lines", "/source?f=.", "/disasm?f=.", "/source?f=main"}[t.Choose(K, 10)]
		if strings.HasPrefix(c.web, "/source") || strings.HasPrefix(c.web, "/disasm") {
			c.objMode = t.Choose(K, 4)
		}
	} else {
		cmd := []string{"-top", "-tree", "-peek=.", "-dot", "-callgrind", "-tags", "-traces", "-raw", "-proto", "-topproto", "-comments", "-text", "-list=.", "-svg", "-weblist=.", "-disasm=.", "-weblist=main|foo"}[t.Choose(K, 17)]
		c.flags = append(c.flags, cmd)
		if strings.Contains(cmd, "list") || strings.Contains(cmd, "disasm") {
			c.objMode = t.Choose(K, 4)
		}
		if t.Bool(K, 30) {
			c.flags = append(c.flags, "-call_tree")
		}
		if t.Bool(K, 25) {
			c.flags = append(c.flags, "-cum")
		}
		if t.Bool(K, 30) {
			c.flags = append(c.flags, []string{"-lines", "-files", "-addresses", "-filefunctions", "-functions"}[t.Choose(K, 5)])
		}
		if t.Bool(K, 25) {
			c.flags = append(c.flags, fmt.Sprintf("-nodecount=%d", []int{0, 1, 2, 3, 5}[t.Choose(K, 5)]))
		}
		if t.Bool(K, 15) {
			c.flags = append(c.flags, "-tagroot="+[]string{"k", "tenant", "k,tenant"}[t.Choose(K, 3)])
		}
		if t.Bool(K, 10) {
			c.flags = append(c.flags, "-tagleaf="+[]string{"k", "tenant"}[t.Choose(K, 2)])
		}
		if t.Bool(K, 15) {
			c.flags = append(c.flags, "-nodefraction=0", "-edgefraction=0")
		}
		if t.Bool(K, 10) {
			c.flags = append(c.flags, "-mean")
		}
		if t.Bool(K, 10) {
			c.flags = append(c.flags, "-noinlines")
		}
		if t.Bool(K, 10) {
			c.flags = append(c.flags, "-trim=false")
		}
		if t.Bool(K, 10) {
			c.flags = append(c.flags, "-relative_percentages", "-focus=main|foo")
		}
	}
	return c
}

type c08out struct {
	out    string
	err    string
	ui     string // everything printed to the terminal, grouped by task
	res    simrt.Result
	panics string
}

func (c *c08case) install() (srcArgs []string) {
	for i, p := range c.profs {
		n := fmt.Sprintf("src%d.pb.gz", i)
		simos.PutFile("/sim/cwd/"+n, p)
		srcArgs = append(srcArgs, n)
	}
	for i := 0; i < c.badSources; i++ {
		// sources that cannot be used: their error lines are output too
		n := fmt.Sprintf("bad%d.pb.gz", i)
		if i%2 == 1 {
			simos.PutFile("/sim/cwd/"+n, []byte("this is not a profile\n"))
		}
		srcArgs = append(srcArgs, n)
	}
	var baseArgs []string
	for i, p := range c.bases {
		n := fmt.Sprintf("base%d.pb.gz", i)
		simos.PutFile("/sim/cwd/"+n, p)
		if c.diffBase {
			baseArgs = append(baseArgs, "-diff_base="+n)
		} else {
			baseArgs = append(baseArgs, "-base="+n)
		}
	}
	return append(baseArgs, srcArgs...)
}

func (c *c08case) run(x *xctx, cfg simrt.Config) c08out {
	freshProcess(true)
	installTools(true)
	installSources()
	srcArgs := c.install()
	cfg.Tape = x.t
	var o c08out
	if c.web != "" {
		var resp webResp
		ui := &simUI{}
		var perr error
		opts := &plugin.Options{
			Flagset: newFlags(append([]string{"-http=localhost:8080", "-no_browser"}, srcArgs...)),
			UI:      ui, Writer: newWriter(), Sym: nopSym{}, Obj: c.objTool(), HTTPTransport: failTransport{},
			HTTPServer: func(args *plugin.HTTPServerArgs) error {
				s := &c19session{handlers: args.Handlers}
				resp = s.do(c.web)
				return nil
			},
		}
		o.res = simrt.Exec(cfg, func() { perr = PProf(opts) })
		x.note(o.res)
		o.out = fmt.Sprintf("%d\n%s", resp.Code, resp.Body)
		o.panics = resp.Panic
		if perr != nil {
			o.err = perr.Error()
		}
		return o
	}
	w := newWriter()
	ui := newTaskUI()
	args := append(append([]string{}, c.flags...), "-output=out")
	args = append(args, srcArgs...)
	opts := &plugin.Options{Flagset: newFlags(args), UI: ui, Writer: w, Sym: nopSym{}, Obj: c.objTool(), HTTPTransport: failTransport{}}
	var perr error
	o.res = simrt.Exec(cfg, func() { perr = PProf(opts) })
	x.note(o.res)
	b, _ := w.get("out")
	o.out = string(b)
	if perr != nil {
		o.err = perr.Error()
	}
	// Messages per task, the tasks' blocks in sorted order: task numbers follow
	// the schedule, the sequence of messages of one task does not.
	var blocks []string
	for _, ls := range ui.byTask {
		if len(ls) == 0 {
			continue
		}
		var sb strings.Builder
		for _, l := range ls {
			sb.WriteString(l.Text + "\n")
		}
		blocks = append(blocks, sb.String())
	}
	sort.Strings(blocks)
	o.ui = strings.Join(blocks, "--\n")
	return o
}

func runC08(x *xctx) *violation {
	t := x.t
	if t.Choose(simrt.KCfg, 10) == 0 {
		return c08Repeat(x)
	}
	c := genC08Case(t)
	x.tr("case: %s", c)
	ref := c.run(x, simrt.Config{Strategy: simrt.StratRunToBlock, MapPolicy: simrt.MapCanonical})
	if v := resultViolation(ref.res); v != nil {
		return v
	}
	if ref.panics != "" {
		return violf("panic", "%s", ref.panics)
	}
	K := 6
	if x.tier == "thorough" {
		K = 24
	}
	perms := 0
	for k := 0; k < K; k++ {
		pol := []int{simrt.MapReverse, simrt.MapShuffle, simrt.MapRotate, simrt.MapMixed, simrt.MapShuffle, simrt.MapShuffle}[k%6]
		cfg := simrt.Config{Strategy: simrt.StratRunToBlock, MapPolicy: pol}
		if len(c.profs)+len(c.bases) > 1 && k%2 == 1 {
			cfg.Strategy = simrt.StratRandom
			cfg.SwitchT = 128
		}
		got := c.run(x, cfg)
		if v := resultViolation(got.res); v != nil {
			return v
		}
		if got.res.Unstamped > 0 {
			x.probe("unstamped_pointer_keys")
		}
		if got.res.MapPerms > 0 {
			perms++
		}
		if got.err != ref.err {
			// Error texts are user-visible output too, but only report them as
			// the separate class they are.
			return violf("map-order-dependent-error", "%s: error %q under %s differs from %q under the canonical order", c, got.err, polName(pol), ref.err)
		}
		if got.ui != ref.ui {
			return violf("map-order-dependent-messages", "%s: terminal messages under map policy %s differ from the canonical-order run: %s", c, polName(pol), firstDiff(got.ui, ref.ui))
		}
		if got.out != ref.out {
			if d := os.Getenv("VERIF_DUMP"); d != "" {
				os.WriteFile(d+".ref", []byte(ref.out), 0644)
				os.WriteFile(d+".got", []byte(got.out), 0644)
				for i, p := range c.profs {
					os.WriteFile(fmt.Sprintf("%s.src%d", d, i), p, 0644)
				}
			}
			x.tr("map policy %s, strategy %d", polName(pol), cfg.Strategy)
			return violf("map-order-dependent-output:"+c.key(), "%s: output under map policy %s differs from the canonical-order run: %s", c, polName(pol), firstDiff(got.out, ref.out))
		}
	}
	if c.legacy {
		if ref.err == "" && len(ref.out) > 0 {
			x.probe("legacy_text_source_reported")
		} else {
			x.probe("legacy_text_source_rejected")
		}
	}
	if perms >= 2 && len(ref.out) > 0 {
		x.nontriv[fmt.Sprintf("%x|%s", hashStr(string(bytes.Join(c.profs, nil))+string(bytes.Join(c.bases, nil))), c)] = true
	}
	if strings.Contains(strings.Join(c.flags, " "), "-tree") || strings.Contains(strings.Join(c.flags, " "), "-dot") {
		if len(c.bases) > 0 {
			x.probe("graph_report_on_profile_diff")
		}
	}
	x.states[strings.Join(c.flags, " ")+c.web] = true
	x.sample = map[string]interface{}{"mode": "map-permutations", "case": c.String(), "permuted_runs": perms, "output_bytes": len(ref.out)}
	return nil
}

func polName(p int) string {
	return [...]string{"canonical", "reverse", "rotate", "shuffle", "mixed"}[p]
}

// c08Repeat: the same command three times in one interactive session, and the
// same web request three times in one web session, must give the same bytes.
func c08Repeat(x *xctx) *violation {
	t := x.t
	K := simrt.KGen
	nt := 1 + t.Choose(K, 2)
	prof := encodeProfile(genProfile(t, genOpts{types: nt, tieRich: true, negative: true, labels: true, inlines: true, maxFuncs: 6, maxSamples: 8, mappings: 1}))
	cmd, _ := genC10Command(t, "F")
	base := strings.TrimSuffix(cmd, " >F")
	lines := []string{base + " >f1", base + " >f2", base + " >f3"}
	x.tr("three times: %s", base)
	freshProcess(true)
	s := runInteractive(x, simrt.Config{Strategy: simrt.StratRunToBlock, MapPolicy: simrt.MapMixed}, prof, nil, lines, nil)
	if v := resultViolation(s.res); v != nil {
		return v
	}
	for _, f := range []string{"f2", "f3"} {
		if !bytes.Equal(s.files["f1"], s.files[f]) {
			return violf("repeat-dependent-output", "%q run again in the same session gives different bytes: %s", base, firstDiff(string(s.files["f1"]), string(s.files[f])))
		}
	}
	if len(s.files["f1"]) > 0 && s.res.MapPerms > 0 {
		x.nontriv["rep:"+base+fmt.Sprintf("%x", hashStr(string(prof)))] = true
	}
	x.sample = map[string]interface{}{"mode": "repeat-in-session", "command": base}
	return nil
}
