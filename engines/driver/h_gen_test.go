//go:build verif

package driver

import (
	"bytes"
	"fmt"
	"strings"

	"github.com/google/pprof/internal/verifsim/simrt"
	"github.com/google/pprof/profile"
)

// Seeded profile generator shared by the engines. Every choice is a tape
// draw, 0 being the plainest value, so shrinking drives profiles towards
// "one sample, one frame".

type genOpts struct {
	maxFuncs   int
	maxSamples int
	maxDepth   int
	types      int  // number of sample types (0: draw 1..3)
	negative   bool // allow negative values
	tieRich    bool // values from {-2,-1,1,2}
	labels     bool
	inlines    bool
	mappings   int  // 0: draw 1..2
	odd        bool // odd strings, ids and build ids (C09)
	fixedNames bool // function names from the fixed universe only
}

var funcNames = []string{"main.main", "main.run", "foo", "bar", "baz", "runtime.mallocgc", "qux", "a.b.(*T).M", "main.run.func1", "compress/flate.(*compressor).deflate"}
var fileNames = []string{"/src/main.go", "/src/lib/foo.go", "/src/lib/bar.go", "lib/baz.go", "/usr/go/src/runtime/malloc.go", "/build/remote/src/pkg/alpha.go"}
var oddStrings = []string{"", " ", "<>", "a\"b", "x\\y", "new\nline", "<script>alert(1)</script>", "ünï", "\xff\xfe", "a|b", "(", "[", "$^", ".*", "_Z3fooi", "foo(int)", "operator<<", "&amp;", "%s%d", "{{.}}", "\x00"}

func genProfile(t *simrt.Tape, o genOpts) *profile.Profile {
	K := simrt.KGen
	if o.maxFuncs == 0 {
		o.maxFuncs = 6
	}
	if o.maxSamples == 0 {
		o.maxSamples = 8
	}
	if o.maxDepth == 0 {
		o.maxDepth = 4
	}
	p := &profile.Profile{}
	nt := o.types
	if nt == 0 {
		nt = 1 + t.Choose(K, 3)
	}
	typeNames := [][2]string{{"samples", "count"}, {"cpu", "nanoseconds"}, {"alloc_space", "bytes"}, {"delay", "microseconds"}}
	for i := 0; i < nt; i++ {
		p.SampleType = append(p.SampleType, &profile.ValueType{Type: typeNames[i%4][0], Unit: typeNames[i%4][1]})
	}
	p.PeriodType = &profile.ValueType{Type: "cpu", Unit: "nanoseconds"}
	p.Period = 10000000
	if t.Bool(K, 30) {
		p.TimeNanos = 1_600_000_000_000_000_000
		p.DurationNanos = 1_000_000_000 * int64(1+t.Choose(K, 5))
	}
	if t.Bool(K, 20) {
		p.Comments = []string{"generated", "c2"}[:1+t.Choose(K, 2)]
	}
	if t.Bool(K, 15) {
		p.DropFrames = "runtime\\..*"
	}
	// header fields most profiles leave empty
	if t.Bool(K, 10) {
		p.KeepFrames = []string{"runtime\\.mallocgc", "main\\..*", "("}[t.Choose(K, 2+b2i(o.odd))]
		if p.DropFrames == "" && t.Bool(K, 50) {
			p.DropFrames = []string{".*", "foo|bar"}[t.Choose(K, 2)]
		}
	}
	if t.Bool(K, 10) {
		p.DefaultSampleType = []string{typeNames[(nt-1)%4][0], "samples", "nosuchtype", ""}[t.Choose(K, 4)]
	}
	if t.Bool(K, 8) {
		p.DocURL = []string{"https://example.com/doc", "http://x/<y>&z", "not a url"}[t.Choose(K, 3)]
	}
	nm := o.mappings
	if nm == 0 {
		nm = 1 + t.Choose(K, 2)
		if t.Bool(K, 10) {
			nm = 3 + t.Choose(K, 2)
		}
	}
	for i := 0; i < nm; i++ {
		m := &profile.Mapping{ID: uint64(i + 1), Start: uint64(0x400000 + i*0x100000), Limit: uint64(0x400000 + i*0x100000 + 0x80000), File: []string{"/bin/prog", "/lib/libc.so"}[i%2]}
		if t.Bool(K, 40) {
			m.BuildID = []string{"abcdef0123", "ff00"}[i%2]
		}
		m.HasFunctions = true
		if t.Bool(K, 15) {
			m.HasFilenames, m.HasLineNumbers, m.HasInlineFrames = t.Bool(K, 50), t.Bool(K, 50), t.Bool(K, 50)
			if t.Bool(K, 30) {
				m.Offset = uint64(0x1000 * (1 + t.Choose(K, 3)))
			}
			if t.Bool(K, 20) {
				m.KernelRelocationSymbol = "_stext"
			}
		}
		if o.odd {
			switch t.Choose(K, 8) {
			case 1:
				m.BuildID = "a"
			case 2:
				m.BuildID = "zz/../.."
			case 3:
				m.File = oddStrings[t.Choose(K, len(oddStrings))]
				if t.Bool(K, 40) {
					m.File = dictStr(t, m.File)
				}
			case 4:
				m.File = ""
				m.BuildID = ""
			case 5:
				m.Start, m.Limit = 0, ^uint64(0)
			}
		}
		p.Mapping = append(p.Mapping, m)
	}
	if o.odd && t.Bool(K, 10) {
		p.Mapping = nil
	}
	nf := 1 + t.Choose(K, o.maxFuncs)
	for i := 0; i < nf; i++ {
		name := funcNames[i%len(funcNames)]
		if i >= len(funcNames) {
			name = fmt.Sprintf("%s.%d", name, i/len(funcNames))
		}
		if !o.fixedNames && o.tieRich && t.Bool(K, 30) {
			name = funcNames[t.Choose(K, 3)] // equal names at different ids
		}
		if o.odd && t.Bool(K, 30) {
			name = oddStrings[t.Choose(K, len(oddStrings))]
			if t.Bool(K, 30) {
				name = dictStr(t, name)
			}
		}
		f := &profile.Function{ID: uint64(i + 1), Name: name, SystemName: name, Filename: fileNames[t.Choose(K, len(fileNames))], StartLine: int64(10 * (i + 1))}
		if o.odd && t.Bool(K, 20) {
			f.Filename = oddStrings[t.Choose(K, len(oddStrings))]
		}
		if o.odd && t.Bool(K, 10) {
			f.ID = ^uint64(0) - uint64(i)
		}
		p.Function = append(p.Function, f)
	}
	nl := nf + t.Choose(K, 3)
	for i := 0; i < nl; i++ {
		l := &profile.Location{ID: uint64(i + 1), Address: uint64(0x401000 + 0x10*i)}
		if len(p.Mapping) > 0 {
			l.Mapping = p.Mapping[t.Choose(K, len(p.Mapping))]
			l.Address = l.Mapping.Start + uint64(0x1000+0x10*i)
		}
		nlines := 1
		if o.inlines && t.Bool(K, 30) {
			nlines = 2 + t.Choose(K, 2)
		}
		for j := 0; j < nlines; j++ {
			f := p.Function[(i+j)%nf]
			l.Line = append(l.Line, profile.Line{Function: f, Line: f.StartLine + int64(1+t.Choose(K, 5)), Column: int64(t.Choose(K, 3))})
		}
		if o.odd && t.Bool(K, 8) && len(l.Line) > 0 {
			// line numbers far apart within one function / far beyond any source file
			l.Line[len(l.Line)-1].Line = []int64{1 << 50, 1<<62 + 7, -5, 1 << 31}[t.Choose(K, 4)]
		}
		if o.odd && t.Bool(K, 10) {
			l.Line = nil // unsymbolized
		}
		if t.Bool(K, 6) {
			l.IsFolded = true
		}
		if o.odd && t.Bool(K, 5) {
			l.Address = ^uint64(0)
		}
		if o.odd && t.Bool(K, 8) {
			// ids are arbitrary non-zero 64-bit numbers
			l.ID = []uint64{1 << 63, ^uint64(0), 1<<63 | 5, 1 << 62}[t.Choose(K, 4)] - uint64(i)
		}
		if o.tieRich && i > 0 && t.Bool(K, 12) {
			// two locations at one address with different line information
			// (two builds of a program merged into one profile)
			l.Address, l.Mapping = p.Location[i-1].Address, p.Location[i-1].Mapping
		}
		p.Location = append(p.Location, l)
	}
	ns := 1 + t.Choose(K, o.maxSamples)
	if o.odd && t.Bool(K, 6) {
		// no sample types and no samples: still a valid profile
		p.SampleType = nil
		nt, ns = 0, 0
	}
	for i := 0; i < ns; i++ {
		s := &profile.Sample{}
		depth := 1 + t.Choose(K, o.maxDepth)
		if o.odd && t.Bool(K, 5) {
			depth = 0
		}
		for d := 0; d < depth; d++ {
			s.Location = append(s.Location, p.Location[t.Choose(K, nl)])
		}
		for k := 0; k < nt; k++ {
			var v int64
			switch {
			case o.tieRich:
				v = []int64{1, -1, 2, -2}[t.Choose(K, 4)]
				if !o.negative && v < 0 {
					v = -v
				}
			default:
				v = int64(1 + t.Choose(K, 100))
				if o.negative && t.Bool(K, 25) {
					v = -v
				}
			}
			if o.odd && t.Bool(K, 5) {
				v = []int64{0, 1<<63 - 1, -1 << 63}[t.Choose(K, 3)]
			}
			s.Value = append(s.Value, v)
		}
		if o.labels && t.Bool(K, 50) {
			s.Label = map[string][]string{}
			keys := []string{"k", "tenant", "k2"}
			vals := []string{"v1", "v2", "a b"}
			n := 1 + t.Choose(K, 2)
			for j := 0; j < n; j++ {
				k := keys[t.Choose(K, len(keys))]
				v := vals[t.Choose(K, len(vals))]
				if o.odd && t.Bool(K, 30) {
					v = oddStrings[1+t.Choose(K, len(oddStrings)-1)]
					if t.Bool(K, 30) {
						k, v = dictStr(t, k), dictStr(t, v)
					}
				}
				s.Label[k] = append(s.Label[k], v)
			}
		}
		if o.labels && t.Bool(K, 40) {
			s.NumLabel = map[string][]int64{}
			s.NumUnit = map[string][]string{}
			k := []string{"bytes", "n"}[t.Choose(K, 2)]
			v := int64([]int{16, 1024, 4096, 0}[t.Choose(K, 4)])
			s.NumLabel[k] = []int64{v}
			s.NumUnit[k] = []string{[]string{"bytes", "kb", ""}[t.Choose(K, 3)]}
			if t.Bool(K, 30) {
				// several values under one key, some with and some without a unit
				n := 1 + t.Choose(K, 2)
				for j := 0; j < n; j++ {
					s.NumLabel[k] = append(s.NumLabel[k], int64([]int{8, 32, 0, 1 << 20}[t.Choose(K, 4)]))
					s.NumUnit[k] = append(s.NumUnit[k], []string{"", "bytes", "kb"}[t.Choose(K, 3)])
				}
			}
			if o.odd && t.Bool(K, 20) {
				s.NumUnit[k][0] = oddStrings[t.Choose(K, len(oddStrings))]
			}
			if t.Bool(K, 30) {
				// a second numeric key on the same sample, with its own mix of
				// unit-ful and unit-less values
				k2 := []string{"alignment", "latency", "a"}[t.Choose(K, 3)]
				n := 1 + t.Choose(K, 3)
				for j := 0; j < n; j++ {
					s.NumLabel[k2] = append(s.NumLabel[k2], int64([]int{4096, 16, 0, 7}[t.Choose(K, 4)]))
					s.NumUnit[k2] = append(s.NumUnit[k2], []string{"nanoseconds", "", "bytes"}[t.Choose(K, 3)])
				}
			}
		}
		p.Sample = append(p.Sample, s)
	}
	if o.odd && t.Bool(K, 6) {
		// a bare profile: nothing but sample types and (maybe) stackless
		// samples, as an idle mutex or block profile has
		p.Mapping, p.Function, p.Location = nil, nil, nil
		if t.Bool(K, 50) {
			p.Sample = nil
		}
		for _, s := range p.Sample {
			s.Location = nil
		}
	}
	return p
}

func b2i(b bool) int {
	if b {
		return 1
	}
	return 0
}

func encodeProfile(p *profile.Profile) []byte {
	var buf bytes.Buffer
	if err := p.Write(&buf); err != nil {
		panic(fmt.Sprintf("generator produced unwritable profile: %v", err))
	}
	return buf.Bytes()
}

// genLegacyText returns a seeded profile in one of the legacy text formats
// (heap, contention, Go count), closed by a memory-map section that uses the
// attr=value / $attr substitution lines with attribute names that are
// prefixes of one another.
func genLegacyText(t *simrt.Tape) []byte {
	K := simrt.KGen
	var sb strings.Builder
	addr := func() string { return fmt.Sprintf("0x%x", 0x401000+0x10*t.Choose(K, 6)) }
	stack := func() string {
		n := 1 + t.Choose(K, 3)
		parts := make([]string, n)
		for i := range parts {
			parts[i] = addr()
		}
		return strings.Join(parts, " ")
	}
	ns := 1 + t.Choose(K, 4)
	sentinel := "MAPPED_LIBRARIES:"
	switch t.Choose(K, 3) {
	case 0:
		sb.WriteString("heap profile: 1: 1024 [2: 2048] @ heapprofile\n")
		for i := 0; i < ns; i++ {
			n := 1 + t.Choose(K, 2)
			fmt.Fprintf(&sb, "%d: %d [%d: %d] @ %s\n", n, 1024*n, n, 1024*n, stack())
		}
		sb.WriteString("\n")
	case 1:
		sb.WriteString("--- contentionz 1 ---\ncycles/second = 1000000\nsampling period = 100\n")
		for i := 0; i < ns; i++ {
			fmt.Fprintf(&sb, "%d %d @ %s\n", 100*(1+t.Choose(K, 2)), 1+t.Choose(K, 2), stack())
		}
		sentinel = "--- Memory map: ---"
	default:
		fmt.Fprintf(&sb, "goroutine profile: total %d\n", ns)
		for i := 0; i < ns; i++ {
			fmt.Fprintf(&sb, "%d @ %s\n", 1+t.Choose(K, 2), stack())
		}
		sb.WriteString("\n")
		sentinel = "--- Memory map: ---"
	}
	sb.WriteString(sentinel + "\n")
	names := []string{"build", "buildid", "b", "dir", "dirname"}
	vals := []string{"rel-2041", "0123abcd", "srv", "opt/x", "v2"}
	na := t.Choose(K, 4)
	for i := 0; i < na; i++ {
		fmt.Fprintf(&sb, "%s=%s\n", names[t.Choose(K, len(names))], vals[t.Choose(K, len(vals))])
	}
	files := []string{"/bin/prog", "/$dir/bin/prog.$buildid", "/$dirname/$build/prog", "/srv/$b/$buildid/prog", "/lib/libc-$build.so", "/anon_hugepage (deleted)", "(deleted)", "[vdso]"}
	fmt.Fprintf(&sb, "00400000-00500000 r-xp 00000000 00:00 0          %s\n", files[t.Choose(K, len(files))])
	if t.Bool(K, 40) {
		fmt.Fprintf(&sb, "00500000-00600000 r-xp 00000000 00:00 0          %s\n", files[t.Choose(K, len(files))])
	}
	return []byte(sb.String())
}
