//go:build verif

package driver

// Common harness of the simulation engines: worker loop, violation records,
// tape shrinking, replay, and the simulated plug-ins (flags, UI, writer,
// symbolizer, object tool, HTTP transport, HTTP server) through which the
// real driver.PProf is driven.

import (
	"bytes"
	"crypto/sha256"
	"encoding/hex"
	"encoding/json"
	"fmt"
	"io"
	"net/http"
	"net/http/httptest"
	"os"
	"reflect"
	"regexp"
	"runtime"
	"runtime/debug"
	"sort"
	"strconv"
	"strings"
	"sync/atomic"
	"testing"
	"time"

	"github.com/google/pprof/internal/plugin"
	"github.com/google/pprof/internal/verifsim/simexec"
	"github.com/google/pprof/internal/verifsim/simos"
	"github.com/google/pprof/internal/verifsim/simrt"
	"github.com/google/pprof/profile"
)

// ---------- auto-dictionary ----------

// The instrumenter harvests the string and integer literals of the current
// tree (dict.json); the generators mix them into their vocabularies and size
// choices, so that magic names and thresholds of the code under test - also
// ones a later change introduces - are within reach of the workloads.
var (
	dictS      []string
	dictI      []int
	dictLoaded bool
)

func loadDict() {
	if dictLoaded {
		return
	}
	dictLoaded = true
	data, err := os.ReadFile(os.Getenv("VERIF_DICT"))
	if err != nil {
		return
	}
	var d struct {
		Strings []string `json:"strings"`
		Ints    []int    `json:"ints"`
	}
	if json.Unmarshal(data, &d) == nil {
		dictS, dictI = d.Strings, d.Ints
	}
}

// dictStr returns a literal of the tree (or fallback if there is no dictionary).
func dictStr(t *simrt.Tape, fallback string) string {
	loadDict()
	if len(dictS) == 0 {
		return fallback
	}
	return dictS[t.Choose(simrt.KGen, len(dictS))]
}

// dictSize returns an integer literal of the tree, minus one, as is, or plus
// one, capped at max (or fallback).
func dictSize(t *simrt.Tape, max, fallback int) int {
	loadDict()
	var ok []int
	for _, v := range dictI {
		if v+1 <= max {
			ok = append(ok, v)
		}
	}
	if len(ok) == 0 {
		return fallback
	}
	return ok[t.Choose(simrt.KGen, len(ok))] - 1 + t.Choose(simrt.KGen, 3)
}

// ---------- systematic schedule enumeration ----------

// exploreBounded enumerates, for the workload fixed by the tape prefix, every
// schedule with at most `bound` preemptive context switches at sync and I/O
// points (simrt.StratEnum: binary "switch away?" choices, free choice of the
// next task whenever the running one blocks or exits). It is stateless
// depth-first search over the choice tape: run, read back the domains of the
// scheduling choices met, advance the deepest one that can still be advanced
// within the bound, cut the tape there, run again. body must draw its
// workload before the simulated run starts and must use simrt.StratEnum.
// Returns the first violation, the number of schedules run, and whether the
// space was exhausted within maxRuns.
func exploreBounded(x *xctx, base []uint32, baseKinds []uint8, bound, maxRuns int, body func() *violation) (*violation, int, bool) {
	isSched := func(k uint8) bool { return simrt.Kind(k) == simrt.KSwitch || simrt.Kind(k) == simrt.KPick }
	prefix := len(base)
	for i, k := range baseKinds {
		if isSched(k) {
			prefix = i
			break
		}
	}
	cur := append([]uint32{}, base[:prefix]...)
	saved := x.t
	defer func() { x.t = saved }()
	runs := 0
	for {
		t := simrt.ReplayTape(cur)
		x.t = t
		runs++
		if v := body(); v != nil {
			return v, runs, false
		}
		used, kinds, ns := t.Used(), t.UsedKinds(), t.UsedNs()
		// number of preemptions before each position
		pre := make([]int, len(used)+1)
		for i := range used {
			pre[i+1] = pre[i]
			if i >= prefix && simrt.Kind(kinds[i]) == simrt.KSwitch && used[i] == 1 {
				pre[i+1]++
			}
		}
		next := -1
		for i := len(used) - 1; i >= prefix; i-- {
			if !isSched(kinds[i]) || used[i]+1 >= ns[i] {
				continue
			}
			if simrt.Kind(kinds[i]) == simrt.KSwitch && pre[i] >= bound {
				continue // would be one preemption too many
			}
			next = i
			break
		}
		if next < 0 {
			if os.Getenv("VERIF_DEBUG_ENUM") != "" {
				fmt.Fprintf(os.Stderr, "enum end: runs=%d prefix=%d used=%d kinds=%v ns=%v vals=%v\n", runs, prefix, len(used), kinds[prefix:], ns[prefix:], used[prefix:])
			}
			return nil, runs, true
		}
		cur = append(append([]uint32{}, used[:next]...), used[next]+1)
		if runs >= maxRuns {
			return nil, runs, false
		}
		if runs%16 == 0 && pastWorkerDeadline(45*time.Second) {
			x.probe("schedule_enumeration_cut_at_worker_deadline")
			return nil, runs, false
		}
	}
}

// workerDeadline is the end of the worker's time budget (zero in replays and
// in the determinism self-check, which run one seed to its end). Workers start
// no new seed after it; the long enumerations inside one seed (fault families
// over a large file, crash points of a large settings file, schedule spaces)
// stop shortly after it instead of holding the whole check up for minutes.
// What was enumerated up to then stays checked; the cut is counted in the
// evidence (probes.*_cut_at_worker_deadline).
var workerDeadline time.Time

func pastWorkerDeadline(grace time.Duration) bool {
	return !workerDeadline.IsZero() && time.Now().After(workerDeadline.Add(grace))
}

// ---------- violations, records ----------

type violation struct {
	Class  string `json:"class"`  // stable class, used for shrinking and known-findings matching
	Detail string `json:"detail"` // human readable
}

func violf(class, format string, a ...interface{}) *violation {
	return &violation{Class: class, Detail: fmt.Sprintf(format, a...)}
}

// xctx is the context of one engine execution.
type xctx struct {
	t       *simrt.Tape
	seed    uint64
	tier    string
	probes  map[string]int64
	faults  map[string]int64
	stats   map[string]int64
	nontriv map[string]bool // distinct non-trivial case keys
	states  map[string]bool // engine-specific distinct states
	swsigs  map[uint64]bool
	sample  interface{}
	trace   []string // human-readable minimised trace (ops, faults); filled by the engine
	tracing bool
	evHash  uint64
	execs   int64
	simNs   int64
	steps   int64
}

func newX(t *simrt.Tape, seed uint64, tier string) *xctx {
	return &xctx{t: t, seed: seed, tier: tier, probes: map[string]int64{}, faults: map[string]int64{}, stats: map[string]int64{},
		nontriv: map[string]bool{}, states: map[string]bool{}, swsigs: map[uint64]bool{}}
}

func (x *xctx) probe(name string)          { x.probes[name]++ }
func (x *xctx) fault(name string, n int64) { x.faults[name] += n }
func (x *xctx) tr(format string, a ...interface{}) {
	if x.tracing {
		x.trace = append(x.trace, fmt.Sprintf(format, a...))
	}
}

// liveCtr is bumped after every simulated execution; the worker's stall
// watchdog exits the process if it stops moving (a real blocking operation
// outside the simulator's control, e.g. an un-instrumented channel wait).
var liveCtr int64

// curSeed is the seed the worker is executing (for the stall record).
var curSeed uint64

// stallSite names the innermost pprof function of the goroutine that is
// running (or runnable) pprof code, from a full goroutine dump.
func stallSite(dump string) string {
	for _, g := range strings.Split(dump, "\n\n") {
		if !strings.Contains(g, "[running]") && !strings.Contains(g, "[runnable]") && !strings.Contains(g, "[chan receive") && !strings.Contains(g, "[chan send") && !strings.Contains(g, "[select") && !strings.Contains(g, "[sync.") && !strings.Contains(g, "[semacquire") {
			continue
		}
		if strings.Contains(g, "TestVerifWorker.func") && strings.Contains(g, "runtime.Stack") {
			continue // the watchdog itself
		}
		for _, l := range strings.Split(g, "\n") {
			if strings.HasPrefix(l, "github.com/google/pprof/") && !strings.Contains(l, "verifsim") && !strings.Contains(l, "/driver.c") && !strings.Contains(l, "/driver.run") && !strings.Contains(l, "/driver.exec") && !strings.Contains(l, "/driver.Test") {
				if p := strings.Index(l, "("); p > 0 {
					l = l[:p]
				}
				return strings.TrimPrefix(l, "github.com/google/pprof/")
			}
		}
	}
	return "unknown"
}

// note accumulates scheduler statistics of one simrt.Exec.
func (x *xctx) note(res simrt.Result) {
	atomic.AddInt64(&liveCtr, 1)
	if x.tracing && res.Switches > 0 && len(res.Trace) > 0 {
		// the schedule of this execution: context switches and the I/O, lock and
		// channel events around them (the last 120 events of interest)
		var lines []string
		for _, e := range res.Trace {
			switch {
			case e.Kind == "switch-to":
				lines = append(lines, fmt.Sprintf("  [%d] task %d -> task %d", e.Seq, e.Task, e.A))
			case strings.HasPrefix(e.Kind, "io:"):
				lines = append(lines, fmt.Sprintf("  [%d] task %d %s %s", e.Seq, e.Task, e.Kind[3:], e.S))
			case e.Kind == "block":
				lines = append(lines, fmt.Sprintf("  [%d] task %d blocks", e.Seq, e.Task))
			case e.Kind == "kill":
				lines = append(lines, fmt.Sprintf("  [%d] task %d: process killed here", e.Seq, e.Task))
			}
		}
		if len(lines) > 120 {
			lines = append([]string{fmt.Sprintf("  ... %d earlier events", len(lines)-120)}, lines[len(lines)-120:]...)
		}
		x.trace = append(x.trace, fmt.Sprintf("schedule of execution %d (%d context switches):", x.execs+1, res.Switches))
		x.trace = append(x.trace, lines...)
	}
	x.execs++
	x.steps += res.Steps
	x.simNs += res.SimTimeNs
	x.evHash = (x.evHash ^ res.EventHash) * 0x100000001b3
	if res.Switches > 0 {
		x.swsigs[res.SwitchSig] = true
	}
	x.stats["switches"] += res.Switches
	x.stats["tasks"] += int64(res.Tasks)
	x.stats["map_ranges"] += res.MapRanges
	x.stats["map_perms"] += res.MapPerms
	x.stats["unstamped"] += res.Unstamped
	x.stats["function_entry_yields"] += res.Yields
	for k, v := range simos.Fired() {
		x.faults["disk:"+k] += v
	}
	simos.ClearFired()
}

type engine struct {
	name string
	prop string
	run  func(x *xctx) *violation
}

var engines = map[string]*engine{}

func register(e *engine) { engines[e.name] = e }

// record is one line of the worker's JSONL output.
type record struct {
	Engine  string           `json:"engine"`
	Seed    uint64           `json:"seed"`
	OK      bool             `json:"ok"`
	Viol    *violation       `json:"violation,omitempty"`
	Tape    []uint32         `json:"tape,omitempty"`
	MinTape []uint32         `json:"min_tape,omitempty"`
	Trace   []string         `json:"trace,omitempty"`
	Shrunk  int              `json:"shrink_execs,omitempty"`
	TapeLen int              `json:"tape_len"`
	EvHash  string           `json:"ev_hash"`
	Digest  string           `json:"digest"`
	Execs   int64            `json:"execs"`
	Steps   int64            `json:"steps"`
	SimNs   int64            `json:"sim_ns"`
	Probes  map[string]int64 `json:"probes,omitempty"`
	Faults  map[string]int64 `json:"faults,omitempty"`
	Stats   map[string]int64 `json:"stats,omitempty"`
	NonTriv []string         `json:"nontrivial,omitempty"`
	States  []string         `json:"states,omitempty"`
	SwSigs  int              `json:"switch_sigs"`
	Sample  interface{}      `json:"sample,omitempty"`
	WallMs  float64          `json:"wall_ms"`
	Drawn   map[string]int64 `json:"drawn,omitempty"`
}

func keys(m map[string]bool) []string {
	out := make([]string, 0, len(m))
	for k := range m {
		out = append(out, k)
	}
	sort.Strings(out)
	return out
}

// execEngine runs e once on the given tape and never lets a panic of the
// harness itself escape unnoticed. In race builds a data-race report written
// by the race detector during the execution is a violation of its own.
func execEngine(e *engine, tape *simrt.Tape, seed uint64, tier string, tracing bool) (x *xctx, v *violation) {
	x = newX(tape, seed, tier)
	x.tracing = tracing
	simrt.TraceAll = tracing
	defer func() { simrt.TraceAll = false }()
	defer func() {
		if r := recover(); r != nil {
			v = violf("harness-panic", "panic outside simulated tasks: %v\n%s", r, debug.Stack())
		}
		if rv := takeRaceReports(); rv != nil && (v == nil || strings.HasPrefix(rv.Class, "data-race")) {
			v = rv
		}
	}()
	v = e.run(x)
	return
}

var raceLogOff int64

// takeRaceReports returns a violation if the race detector wrote a report
// since the last call (GORACE log_path is set by the orchestrator).
func takeRaceReports() *violation {
	prefix := os.Getenv("VERIF_RACELOG")
	if prefix == "" || !simrt.RaceBuild {
		return nil
	}
	data, err := os.ReadFile(fmt.Sprintf("%s.%d", prefix, os.Getpid()))
	if err != nil || int64(len(data)) <= raceLogOff {
		return nil
	}
	fresh := string(data[raceLogOff:])
	raceLogOff = int64(len(data))
	i := strings.Index(fresh, "WARNING: DATA RACE")
	if i < 0 {
		return nil
	}
	rep := fresh[i:]
	if j := strings.Index(rep, "=================="); j > 0 {
		rep = rep[:j]
	}
	// Signature: the innermost frame of each of the two accesses.
	var tops []string
	harnessOnly := true
	lines := strings.Split(rep, "\n")
	for k := 0; k+1 < len(lines); k++ {
		l := lines[k]
		if strings.HasPrefix(l, "Write at ") || strings.HasPrefix(l, "Read at ") || strings.HasPrefix(l, "Previous write at ") || strings.HasPrefix(l, "Previous read at ") ||
			strings.HasPrefix(l, "Atomic write at") || strings.HasPrefix(l, "Previous atomic write at") || strings.HasPrefix(l, "Atomic read at") || strings.HasPrefix(l, "Previous atomic read at") {
			// first non-runtime frame
			for m := k + 1; m+1 < len(lines) && strings.HasPrefix(lines[m], "  "); m += 2 {
				fn := strings.TrimSpace(lines[m])
				if strings.HasPrefix(fn, "runtime.") || strings.HasPrefix(fn, "internal/") || strings.HasPrefix(fn, "sync.") || strings.HasPrefix(fn, "sync/atomic.") {
					continue
				}
				fn = strings.TrimSuffix(fn, "()")
				if p := strings.LastIndex(fn, "/"); p >= 0 {
					fn = fn[p+1:]
				}
				tops = append(tops, fn)
				if !strings.Contains(fn, "verifsim") && !strings.Contains(lines[m+1], "verif_") {
					harnessOnly = false
				}
				break
			}
		}
	}
	sort.Strings(tops)
	class := "data-race:" + strings.Join(tops, "|")
	if harnessOnly && len(tops) > 0 {
		class = "harness-race:" + strings.Join(tops, "|")
	}
	return &violation{Class: class, Detail: rep}
}

func mkRecord(e *engine, seed uint64, x *xctx, v *violation, wall time.Duration) *record {
	r := &record{Engine: e.name, Seed: seed, OK: v == nil, Viol: v, TapeLen: x.t.Pos(), Execs: x.execs, Steps: x.steps, SimNs: x.simNs,
		Probes: x.probes, Faults: x.faults, Stats: x.stats, NonTriv: keys(x.nontriv), States: keys(x.states), SwSigs: len(x.swsigs),
		Sample: x.sample, WallMs: float64(wall.Microseconds()) / 1000, EvHash: fmt.Sprintf("%016x", x.evHash)}
	h := sha256.New()
	fmt.Fprintf(h, "%016x|%v|", x.evHash, v == nil)
	if v != nil {
		fmt.Fprintf(h, "%s", v.Class)
	}
	b, _ := json.Marshal(x.t.Used())
	h.Write(b)
	r.Digest = hex.EncodeToString(h.Sum(nil))[:16]
	r.Drawn = map[string]int64{}
	for k := simrt.Kind(0); int(k) < len(x.t.Drawn); k++ {
		if x.t.Drawn[k] > 0 {
			r.Drawn[k.String()] = x.t.Drawn[k]
		}
	}
	return r
}

// shrink minimises a failing tape while the same violation class persists.
func shrink(e *engine, seed uint64, tier string, tape []uint32, class string, maxExecs int, deadline time.Time) ([]uint32, int) {
	execs := 0
	try := func(cand []uint32) ([]uint32, bool) {
		if execs >= maxExecs || time.Now().After(deadline) {
			return nil, false
		}
		execs++
		x, v := execEngine(e, simrt.ReplayTape(cand), seed, tier, false)
		if v != nil && v.Class == class {
			used := x.t.Used()
			for len(used) > 0 && used[len(used)-1] == 0 {
				used = used[:len(used)-1]
			}
			return used, true
		}
		return nil, false
	}
	cur := tape
	if c, ok := try(cur); ok {
		cur = c
	} else {
		return tape, execs // does not reproduce in-process: leave it alone
	}
	for pass := 0; pass < 4; pass++ {
		improved := false
		// 1. zero out blocks, large to small
		for size := len(cur) / 2; size >= 1; size /= 2 {
			for start := 0; start+size <= len(cur); start += size {
				allZero := true
				for _, v := range cur[start : start+size] {
					if v != 0 {
						allZero = false
					}
				}
				if allZero {
					continue
				}
				cand := append([]uint32{}, cur...)
				for i := start; i < start+size; i++ {
					cand[i] = 0
				}
				if c, ok := try(cand); ok && lessTape(c, cur) {
					cur = c
					improved = true
				}
			}
		}
		// 2. delete blocks
		for size := len(cur) / 2; size >= 1; size /= 2 {
			for start := 0; start+size <= len(cur); {
				cand := append(append([]uint32{}, cur[:start]...), cur[start+size:]...)
				if c, ok := try(cand); ok && lessTape(c, cur) {
					cur = c
					improved = true
				} else {
					start += size
				}
			}
		}
		// 3. lower single values
		for i := 0; i < len(cur); i++ {
			if cur[i] == 0 {
				continue
			}
			for _, nv := range []uint32{0, 1, cur[i] / 2, cur[i] - 1} {
				if nv >= cur[i] {
					continue
				}
				cand := append([]uint32{}, cur...)
				cand[i] = nv
				if c, ok := try(cand); ok && lessTape(c, cur) {
					cur = c
					improved = true
					break
				}
			}
			if i >= len(cur) {
				break
			}
		}
		if !improved || execs >= maxExecs {
			break
		}
	}
	return cur, execs
}

func lessTape(a, b []uint32) bool {
	if len(a) != len(b) {
		return len(a) < len(b)
	}
	nza, nzb := 0, 0
	var sa, sb uint64
	for i := range a {
		if a[i] != 0 {
			nza++
		}
		if b[i] != 0 {
			nzb++
		}
		sa += uint64(a[i])
		sb += uint64(b[i])
	}
	if nza != nzb {
		return nza < nzb
	}
	return sa < sb
}

// replayFile is what the orchestrator writes and `verif replay` reads.
type replayFile struct {
	Property string     `json:"property"`
	Engine   string     `json:"engine"`
	Seed     uint64     `json:"seed"`
	Tier     string     `json:"tier"`
	Tape     []uint32   `json:"tape"`
	Viol     *violation `json:"violation"`
	Digest   string     `json:"digest"`
	Trace    []string   `json:"trace"`
	BySeed   bool       `json:"by_seed,omitempty"`
}

// TestVerifWorker is the entry point of every worker process.
//
//	VERIF_ENGINE   engine name
//	VERIF_SEEDS    first:count
//	VERIF_OUT      JSONL output file
//	VERIF_TIER     quick|thorough
//	VERIF_DEADLINE unix seconds after which no new run is started
//	VERIF_REPLAY   replay file: run exactly that tape and report
//	VERIF_NOSHRINK do not minimise
func TestVerifWorker(t *testing.T) {
	name := os.Getenv("VERIF_ENGINE")
	if name == "" {
		t.Skip("no VERIF_ENGINE")
	}
	e := engines[name]
	if e == nil {
		fmt.Fprintf(os.Stderr, "unknown engine %q\n", name)
		os.Exit(2)
	}
	// Unbounded recursion in the code under test should end in the runtime's
	// stack-overflow abort (which the orchestrator reports against the seed)
	// after 128 MiB of stack rather than the default 1 GiB.
	debug.SetMaxStack(128 << 20)
	tier := os.Getenv("VERIF_TIER")
	if tier == "" {
		tier = "quick"
	}
	out := os.Stdout
	if p := os.Getenv("VERIF_OUT"); p != "" {
		f, err := os.Create(p)
		if err != nil {
			fmt.Fprintln(os.Stderr, err)
			os.Exit(2)
		}
		defer f.Close()
		out = f
	}
	enc := json.NewEncoder(out)
	go func() {
		// Idle time is counted in 2 s ticks this goroutine actually lived
		// through, not read off a clock: a machine that is suspended or starved
		// for a while (a snapshot of the sandbox, heavy load) makes a tick late
		// but does not add ticks.
		last, idle := int64(-1), 0
		for {
			time.Sleep(2 * time.Second)
			cur := atomic.LoadInt64(&liveCtr)
			if cur != last {
				last, idle = cur, 0
				continue
			}
			idle++
			if idle > 45 {
				buf := make([]byte, 1<<20)
				n := runtime.Stack(buf, true)
				fmt.Fprintf(os.Stderr, "STALL: no simulated execution finished for 90 s (a task is blocked on something the simulator does not control, or an unbounded loop without calls). Goroutines:\n%s\n", buf[:n])
				// Leave a record for the seed in progress: the orchestrator re-runs
				// that seed in a fresh process and reports a hang only if it stalls
				// there again in the same function.
				where := stallSite(string(buf[:n]))
				enc.Encode(&record{Engine: name, Seed: atomic.LoadUint64(&curSeed), OK: false, Viol: &violation{Class: "hang:" + where, Detail: "no simulated execution finished for 90 s; goroutines:\n" + short(string(buf[:n]), 6000)}, Digest: "stall"})
				if f, ok := interface{}(out).(*os.File); ok {
					f.Sync()
				}
				os.Exit(3)
			}
		}
	}()
	if rp := os.Getenv("VERIF_REPLAY"); rp != "" {
		data, err := os.ReadFile(rp)
		if err != nil {
			fmt.Fprintln(os.Stderr, err)
			os.Exit(2)
		}
		var rf replayFile
		if err := json.Unmarshal(data, &rf); err != nil {
			fmt.Fprintln(os.Stderr, err)
			os.Exit(2)
		}
		start := time.Now()
		atomic.StoreUint64(&curSeed, rf.Seed)
		tape := simrt.ReplayTape(rf.Tape)
		if rf.BySeed {
			tape = simrt.NewTape(rf.Seed) // a stalled run has no complete tape: regenerate it from the seed
		}
		x, v := execEngine(e, tape, rf.Seed, rf.Tier, true)
		r := mkRecord(e, rf.Seed, x, v, time.Since(start))
		r.Trace = x.trace
		r.Tape = x.t.Used()
		enc.Encode(r)
		out.Sync()
		os.Exit(0)
	}
	var first, count uint64 = 1, 1
	if s := os.Getenv("VERIF_SEEDS"); s != "" {
		parts := strings.SplitN(s, ":", 2)
		first, _ = strconv.ParseUint(parts[0], 10, 64)
		if len(parts) == 2 {
			count, _ = strconv.ParseUint(parts[1], 10, 64)
		}
	}
	var deadline time.Time
	if d := os.Getenv("VERIF_DEADLINE"); d != "" {
		sec, _ := strconv.ParseInt(d, 10, 64)
		deadline = time.Unix(sec, 0)
		workerDeadline = deadline
	}
	viols := 0
	for s := first; s < first+count; s++ {
		if !deadline.IsZero() && time.Now().After(deadline) {
			break
		}
		start := time.Now()
		atomic.AddInt64(&liveCtr, 1)
		atomic.StoreUint64(&curSeed, s)
		x, v := execEngine(e, simrt.NewTape(s), s, tier, false)
		r := mkRecord(e, s, x, v, time.Since(start))
		if v != nil {
			viols++
			r.Tape = x.t.Used()
			min := r.Tape
			if os.Getenv("VERIF_NOSHRINK") == "" && viols <= 3 && !strings.Contains(v.Class, "-race:") {
				min, r.Shrunk = shrink(e, s, tier, r.Tape, v.Class, 400, time.Now().Add(60*time.Second))
			}
			if len(min) == 0 {
				min = []uint32{0} // the all-benign tape; kept non-empty so that it survives omitempty
			}
			r.MinTape = min
			// Re-run the minimised tape with tracing for the replay file.
			x2, v2 := execEngine(e, simrt.ReplayTape(min), s, tier, true)
			if strings.Contains(v.Class, "-race:") {
				// The race detector reports a racy pair once per process: the
				// re-execution cannot see it again. Keep the original run.
				r.MinTape = r.Tape
			} else if v2 != nil && v2.Class == v.Class {
				r.Trace = x2.trace
				r.Viol = v2
				r2 := mkRecord(e, s, x2, v2, 0)
				r.Digest = r2.Digest
			} else {
				r.MinTape = r.Tape
			}
		}
		enc.Encode(r)
	}
	// In race builds package testing fails the test when the detector fired;
	// race reports are already recorded as violations of their seeds.
	if f, ok := interface{}(out).(*os.File); ok {
		f.Sync()
		f.Close()
	}
	os.Exit(0)
}

// ---------- simulated process ----------

const (
	simHome     = "/home/u"
	simSettings = "/home/u/.config/pprof/settings.json"
)

// freshProcess is the simulated process boundary: package state of every
// instrumented package as after program start; disk, environment, tool
// scripts and fault plans optionally reset too.
func freshProcess(resetDisk bool) {
	simrt.ReinitAll()
	if resetDisk {
		simos.Reset()
		simexec.ResetPrograms()
	}
	simos.Setenv("HOME", simHome)
	simos.MkdirRaw(simHome)
}

// ---------- plug-ins ----------

// simFlags implements plugin.FlagSet over an argument list.
type simFlags struct {
	args  []string
	bools map[string]*bool
	ints  map[string]*int
	flts  map[string]*float64
	strs  map[string]*string
	lists map[string]*[]*string
	extra string
}

func newFlags(args []string) *simFlags {
	return &simFlags{args: args, bools: map[string]*bool{}, ints: map[string]*int{}, flts: map[string]*float64{}, strs: map[string]*string{}, lists: map[string]*[]*string{}}
}

func (f *simFlags) Bool(n string, d bool, _ string) *bool          { v := d; f.bools[n] = &v; return &v }
func (f *simFlags) Int(n string, d int, _ string) *int             { v := d; f.ints[n] = &v; return &v }
func (f *simFlags) Float64(n string, d float64, _ string) *float64 { v := d; f.flts[n] = &v; return &v }
func (f *simFlags) String(n, d, _ string) *string                  { v := d; f.strs[n] = &v; return &v }
func (f *simFlags) StringList(n, d, _ string) *[]*string {
	l := []*string{}
	f.lists[n] = &l
	return &l
}
func (f *simFlags) ExtraUsage() string      { return f.extra }
func (f *simFlags) AddExtraUsage(eu string) { f.extra += eu }

// Parse follows the conventions of package flag: -name, -name=value,
// -name value (non-bool); the first non-flag argument ends flag parsing.
func (f *simFlags) Parse(usage func()) []string {
	i := 0
	for ; i < len(f.args); i++ {
		a := f.args[i]
		if len(a) < 2 || a[0] != '-' {
			break
		}
		if a == "--" {
			i++
			break
		}
		name := strings.TrimLeft(a, "-")
		val, hasVal := "", false
		if eq := strings.Index(name, "="); eq >= 0 {
			name, val, hasVal = name[:eq], name[eq+1:], true
		}
		if b, ok := f.bools[name]; ok {
			v := true
			if hasVal {
				pv, err := strconv.ParseBool(val)
				if err != nil {
					usage()
					return nil
				}
				v = pv
			}
			*b = v
			continue
		}
		if !hasVal {
			if i+1 >= len(f.args) {
				usage()
				return nil
			}
			i++
			val = f.args[i]
		}
		switch {
		case f.ints[name] != nil:
			n, err := strconv.Atoi(val)
			if err != nil {
				usage()
				return nil
			}
			*f.ints[name] = n
		case f.flts[name] != nil:
			n, err := strconv.ParseFloat(val, 64)
			if err != nil {
				usage()
				return nil
			}
			*f.flts[name] = n
		case f.strs[name] != nil:
			*f.strs[name] = val
		case f.lists[name] != nil:
			v := val
			*f.lists[name] = append(*f.lists[name], &v)
		default:
			usage()
			return nil
		}
	}
	rest := f.args[i:]
	if len(rest) == 0 {
		usage()
		return nil
	}
	return rest
}

// uiLine is one recorded UI message.
type uiLine struct {
	Err  bool
	Text string
}

// simUI implements plugin.UI: scripted input, recorded output.
type simUI struct {
	lines    []string
	pos      int
	readErr  error // returned after the script is exhausted (nil: io.EOF)
	out      []uiLine
	complete func(string) string
	browser  bool
	term     bool
	onRead   func(ui *simUI, prompt string) // called before each ReadLine (histories hook in here)
}

func (u *simUI) ReadLine(prompt string) (string, error) {
	if u.onRead != nil {
		u.onRead(u, prompt)
	}
	simrt.Point("ui-read", int64(u.pos))
	if u.pos >= len(u.lines) {
		if u.readErr != nil {
			return "", u.readErr
		}
		return "", io.EOF
	}
	l := u.lines[u.pos]
	u.pos++
	return l, nil
}

func fmtArgs(args []interface{}) string {
	text := fmt.Sprint(args...)
	if !strings.HasSuffix(text, "\n") {
		text += "\n"
	}
	return text
}

func (u *simUI) Print(args ...interface{}) {
	simrt.Point("ui-print", 0)
	u.out = append(u.out, uiLine{false, fmtArgs(args)})
}
func (u *simUI) PrintErr(args ...interface{}) {
	simrt.Point("ui-printerr", 0)
	u.out = append(u.out, uiLine{true, fmtArgs(args)})
}
func (u *simUI) IsTerminal() bool                      { return u.term }
func (u *simUI) WantBrowser() bool                     { return u.browser }
func (u *simUI) SetAutoComplete(c func(string) string) { u.complete = c }

func (u *simUI) transcript(from int) string { return u.transcriptRange(from, len(u.out)) }

func (u *simUI) transcriptRange(from, to int) string {
	var sb strings.Builder
	for _, l := range u.out[from:to] {
		if l.Err {
			sb.WriteString("E:")
		} else {
			sb.WriteString("P:")
		}
		sb.WriteString(l.Text)
	}
	return sb.String()
}

// lockedUI is a UI whose recording is safe under concurrent tasks without
// creating happens-before edges between them: each task records into its own
// slot (index = simrt.CurTask()).
type taskUI struct {
	simUI
	byTask [][]uiLine
}

func newTaskUI() *taskUI { return &taskUI{byTask: make([][]uiLine, 4096)} }

func (u *taskUI) Print(args ...interface{}) {
	simrt.Point("ui-print", 0)
	i := simrt.CurTask()
	if i < 0 {
		i = 0
	}
	u.byTask[i] = append(u.byTask[i], uiLine{false, fmtArgs(args)})
}
func (u *taskUI) PrintErr(args ...interface{}) {
	simrt.Point("ui-printerr", 0)
	i := simrt.CurTask()
	if i < 0 {
		i = 0
	}
	u.byTask[i] = append(u.byTask[i], uiLine{true, fmtArgs(args)})
}

func (u *taskUI) all() []uiLine {
	var out []uiLine
	for _, l := range u.byTask {
		out = append(out, l...)
	}
	return out
}

// simWriter implements plugin.Writer into memory, with optional faults.
type simWriter struct {
	files   map[string]*bytes.Buffer
	order   []string
	openErr map[string]error
	failAll error
}

type wcloser struct {
	*bytes.Buffer
	closeErr error
}

func (w wcloser) Close() error { return w.closeErr }

func newWriter() *simWriter { return &simWriter{files: map[string]*bytes.Buffer{}} }

func (w *simWriter) Open(name string) (io.WriteCloser, error) {
	simrt.Point("writer-open", 0)
	if w.failAll != nil {
		return nil, w.failAll
	}
	if err := w.openErr[name]; err != nil {
		return nil, err
	}
	if strings.HasPrefix(name, "/no/such/dir/") {
		return nil, fmt.Errorf("open %s: no such file or directory", name)
	}
	b := &bytes.Buffer{}
	if _, ok := w.files[name]; !ok {
		w.order = append(w.order, name)
	}
	w.files[name] = b
	return wcloser{Buffer: b}, nil
}

func (w *simWriter) get(name string) ([]byte, bool) {
	b, ok := w.files[name]
	if !ok {
		return nil, false
	}
	return b.Bytes(), true
}

// nopSym is a Symbolizer that does nothing.
type nopSym struct{}

func (nopSym) Symbolize(mode string, srcs plugin.MappingSources, prof *profile.Profile) error {
	return nil
}

// nopObj is an ObjTool without any binaries.
type nopObj struct{}

func (nopObj) Open(file string, start, limit, offset uint64, relocationSymbol string) (plugin.ObjFile, error) {
	return nil, fmt.Errorf("no object file %s", file)
}
func (nopObj) Disasm(file string, start, end uint64, intelSyntax bool) ([]plugin.Inst, error) {
	return nil, fmt.Errorf("disassembly not supported")
}

var _ = regexp.MustCompile

// ---------- web sessions through the HTTPServer seam ----------

// webResp is the recorded answer of one request.
type webResp struct {
	Code   int
	Body   string
	Header http.Header
	Panic  string
	Broken bool // the client went away: Body is what was delivered before
}

// splitAbort recognises the request notation "!N!/path?query": the client
// goes away after N bytes of the response body (every later Write fails with
// EPIPE, the failing one delivers the bytes that still fit).
func splitAbort(target string) (string, int) {
	if strings.HasPrefix(target, "!") {
		if j := strings.Index(target[1:], "!"); j >= 0 {
			if n, err := strconv.Atoi(target[1 : 1+j]); err == nil {
				return target[j+2:], n
			}
		}
	}
	return target, -1
}

type brokenWriter struct {
	hdr    http.Header
	code   int
	left   int
	body   bytes.Buffer
	failed bool
}

func (w *brokenWriter) Header() http.Header { return w.hdr }
func (w *brokenWriter) WriteHeader(c int) {
	if w.code == 0 {
		w.code = c
	}
}
func (w *brokenWriter) Write(p []byte) (int, error) {
	if w.code == 0 {
		w.code = 200
	}
	simrt.Point("net-write", int64(len(p)))
	if len(p) <= w.left && !w.failed {
		w.left -= len(p)
		w.body.Write(p)
		return len(p), nil
	}
	n := 0
	if !w.failed {
		n = w.left
		w.body.Write(p[:n])
		w.left = 0
	}
	w.failed = true
	return n, fmt.Errorf("write tcp 127.0.0.1:8080->127.0.0.1:51234: write: broken pipe")
}

func serve(h http.Handler, target string) (resp webResp) {
	defer func() {
		if r := recover(); r != nil {
			if simrt.IsAbort(r) {
				panic(r)
			}
			resp.Panic = fmt.Sprintf("%v\n%s", r, debug.Stack())
		}
	}()
	target, abortAfter := splitAbort(target)
	req := httptest.NewRequest("GET", target, nil)
	if abortAfter >= 0 {
		w := &brokenWriter{hdr: http.Header{}, left: abortAfter}
		h.ServeHTTP(w, req)
		if w.code == 0 {
			w.code = 200
		}
		return webResp{Code: w.code, Body: w.body.String(), Header: w.hdr, Broken: w.failed}
	}
	w := httptest.NewRecorder()
	h.ServeHTTP(w, req)
	return webResp{Code: w.Code, Body: w.Body.String(), Header: w.Header()}
}

// ---------- small helpers ----------

func sortedKeysI64(m map[string]int64) []string {
	out := make([]string, 0, len(m))
	for k := range m {
		out = append(out, k)
	}
	sort.Strings(out)
	return out
}

func short(s string, n int) string {
	if len(s) <= n {
		return s
	}
	return s[:n] + fmt.Sprintf("...(+%d)", len(s)-n)
}

func firstDiff(a, b string) string {
	n := len(a)
	if len(b) < n {
		n = len(b)
	}
	i := 0
	for i < n && a[i] == b[i] {
		i++
	}
	lo := i - 40
	if lo < 0 {
		lo = 0
	}
	ha, hb := i+60, i+60
	if ha > len(a) {
		ha = len(a)
	}
	if hb > len(b) {
		hb = len(b)
	}
	return fmt.Sprintf("at byte %d: %q vs %q", i, a[lo:ha], b[lo:hb])
}

// ---------- vocabulary taken from the tree at run time ----------

// treeVocab lists the option names (with the choice names of multi-choice
// options), URL parameters and interactive commands the current tree defines,
// so that an option, parameter or command added by a later change is part of
// the workloads without anyone editing a generator.
type treeVocabT struct {
	options   []string
	kinds     map[string]reflect.Kind
	urlparams []string
	urlKinds  map[string]reflect.Kind
	commands  []string
	// command-line flags registered by parseFlags
	flagBools, flagInts, flagFloats, flagStrings []string
}

// treeFlag returns one command-line argument built from a flag of the tree.
func treeFlag(t *simrt.Tape, strs []string) string {
	v := treeVocab()
	K := simrt.KGen
	pick := func(l []string) string {
		if len(l) == 0 {
			return "cum"
		}
		return l[t.Choose(K, len(l))]
	}
	switch t.Choose(K, 4) {
	case 0:
		return "-" + pick(v.flagBools) + []string{"", "=true", "=false"}[t.Choose(K, 3)]
	case 1:
		return "-" + pick(v.flagInts) + "=" + []string{"0", "1", "-1", "30", "99999999999999999999"}[t.Choose(K, 5)]
	case 2:
		return "-" + pick(v.flagFloats) + "=" + []string{"0", "0.5", "-1", "1e308", "x"}[t.Choose(K, 5)]
	}
	return "-" + pick(v.flagStrings) + "=" + strs[t.Choose(K, len(strs))]
}

var treeVocabCache *treeVocabT

func treeVocab() *treeVocabT {
	if treeVocabCache != nil {
		return treeVocabCache
	}
	v := &treeVocabT{kinds: map[string]reflect.Kind{}, urlKinds: map[string]reflect.Kind{}}
	for _, f := range configFields {
		v.options = append(v.options, f.name)
		v.kinds[f.name] = f.field.Type.Kind()
		for _, c := range f.choices {
			v.options = append(v.options, c)
			v.kinds[c] = reflect.Bool
		}
		if f.urlparam != "" {
			v.urlparams = append(v.urlparams, f.urlparam)
			v.urlKinds[f.urlparam] = f.field.Type.Kind()
		}
	}
	for name := range pprofCommands {
		v.commands = append(v.commands, name)
	}
	// the command-line flags the tree registers, by type
	func() {
		defer func() { recover() }()
		fl := newFlags([]string{"prof.pb.gz"})
		parseFlags(&plugin.Options{Flagset: fl, UI: &simUI{}})
		for n := range fl.bools {
			v.flagBools = append(v.flagBools, n)
		}
		for n := range fl.ints {
			v.flagInts = append(v.flagInts, n)
		}
		for n := range fl.flts {
			v.flagFloats = append(v.flagFloats, n)
		}
		for n := range fl.strs {
			if n == "http" {
				continue // would start a real listener where no HTTPServer seam is installed
			}
			v.flagStrings = append(v.flagStrings, n)
		}
		for n := range fl.lists {
			v.flagStrings = append(v.flagStrings, n)
		}
	}()
	sort.Strings(v.flagBools)
	sort.Strings(v.flagInts)
	sort.Strings(v.flagFloats)
	sort.Strings(v.flagStrings)
	sort.Strings(v.options)
	sort.Strings(v.urlparams)
	sort.Strings(v.commands)
	treeVocabCache = v
	return v
}

func treeValue(t *simrt.Tape, k reflect.Kind, strs []string) string {
	K := simrt.KGen
	switch k {
	case reflect.Bool:
		return []string{"true", "false", "t", "0"}[t.Choose(K, 4)]
	case reflect.Int, reflect.Int64:
		return []string{"0", "1", "7", "-3", "100000"}[t.Choose(K, 5)]
	case reflect.Float64:
		return []string{"0", "0.25", "2", "1e-9"}[t.Choose(K, 4)]
	}
	return strs[t.Choose(K, len(strs))]
}

// treeAssign returns an interactive assignment to an option of the tree.
func treeAssign(t *simrt.Tape, strs []string) string {
	v := treeVocab()
	name := v.options[t.Choose(simrt.KGen, len(v.options))]
	if v.kinds[name] == reflect.Bool && t.Bool(simrt.KGen, 40) {
		return name
	}
	return name + "=" + treeValue(t, v.kinds[name], strs)
}

// treeParam returns a URL parameter of the tree with a value.
func treeParam(t *simrt.Tape, strs []string) (string, string) {
	v := treeVocab()
	name := v.urlparams[t.Choose(simrt.KGen, len(v.urlparams))]
	return name, treeValue(t, v.urlKinds[name], strs)
}

// scriptObj is an ObjTool over binaries that exist only as a script: Open
// always succeeds; the disassembler either fails (objdump missing or exiting
// non-zero) or lists one instruction every 4 bytes; SourceLine answers a pure
// function of the address.
type scriptObj struct {
	disasmFails bool
	stripped    bool // the disassembly carries no function, file or line
}

type scriptObjFile struct {
	name         string
	start, limit uint64
}

func (o scriptObj) Open(file string, start, limit, offset uint64, relocationSymbol string) (plugin.ObjFile, error) {
	return &scriptObjFile{name: file, start: start, limit: limit}, nil
}

func (o scriptObj) Disasm(file string, start, end uint64, intelSyntax bool) ([]plugin.Inst, error) {
	if o.disasmFails {
		return nil, fmt.Errorf("objdump %s: exit status 1", file)
	}
	var insts []plugin.Inst
	for a := start &^ 3; a < end && len(insts) < 256; a += 4 {
		in := plugin.Inst{Addr: a, Text: fmt.Sprintf("mov %%r%d,%%r%d", a%7, a%5)}
		if !o.stripped {
			in.Function, in.File, in.Line = fmt.Sprintf("sym_%x", a>>8), "/src/main.go", int(10+a%50)
		}
		insts = append(insts, in)
	}
	return insts, nil
}

func (f *scriptObjFile) Name() string                        { return f.name }
func (f *scriptObjFile) ObjAddr(addr uint64) (uint64, error) { return addr, nil }
func (f *scriptObjFile) BuildID() string                     { return "" }
func (f *scriptObjFile) Close() error                        { return nil }
func (f *scriptObjFile) SourceLine(addr uint64) ([]plugin.Frame, error) {
	if addr%13 == 0 {
		return nil, fmt.Errorf("addr2line: no line for %#x", addr)
	}
	n := 1 + int(addr%2)
	fr := make([]plugin.Frame, n)
	for i := range fr {
		fr[i] = plugin.Frame{Func: funcNames[(addr/16+uint64(i))%uint64(len(funcNames))], File: fileNames[(addr/32+uint64(i))%uint64(len(fileNames))], Line: int(11 + (addr+uint64(i))%6)}
	}
	return fr, nil
}
func (f *scriptObjFile) Symbols(r *regexp.Regexp, addr uint64) ([]*plugin.Sym, error) {
	var out []*plugin.Sym
	for i := uint64(0); i < 3; i++ {
		name := funcNames[i]
		s := &plugin.Sym{Name: []string{name}, File: f.name, Start: f.start + 0x1000 + i*0x40, End: f.start + 0x1000 + i*0x40 + 0x3f}
		if r != nil && !r.MatchString(name) {
			continue
		}
		if addr != 0 && (addr < s.Start || addr > s.End) {
			continue
		}
		out = append(out, s)
	}
	return out, nil
}
