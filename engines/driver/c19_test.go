//go:build verif

package driver

// C19: saved view configurations are durable and faithfully restored.
//
// System under simulation: the real /saveconfig, /deleteconfig and page
// handlers obtained through driver.PProf's HTTPServer seam, with
// settings.json on the simulated disk.
//
// Oracle: an independent model of the settings file (ordered list of named
// option sets, documented JSON field names), an independent JSON decoder for
// the file, old-or-new atomicity after crashes and failed writes, bounded
// liveness after faults stop, and exact linearizability search for
// concurrent requests.

import (
	"encoding/json"
	"fmt"
	"html"
	"net/http"
	"net/url"
	"os"
	"regexp"
	"sort"
	"strconv"
	"strings"
	"syscall"
	"time"

	"github.com/google/pprof/internal/plugin"
	"github.com/google/pprof/internal/verifsim/simos"
	"github.com/google/pprof/internal/verifsim/simrt"
)

func init() {
	register(&engine{name: "c19", prop: "C19", run: runC19})
}

const (
	oBool = iota
	oInt
	oFloat
	oStr
	oChoice
)

type optSpec struct {
	url, json string
	kind      int
	def       string
	choices   []string
}

// The user-visible contract of saved configurations: URL parameter, JSON
// field of settings.json, type and default (doc/README.md "Web interface",
// settings.json is a user-editable file).
var optSpecs = []optSpec{
	{"calltree", "call_tree", oBool, "false", nil},
	{"rel", "relative_percentages", oBool, "false", nil},
	{"unit", "unit", oStr, "minimum", nil},
	{"compact", "compact_labels", oBool, "false", nil},
	{"intel", "intel_syntax", oBool, "false", nil},
	{"mean", "mean", oBool, "false", nil},
	{"norm", "normalize", oBool, "false", nil},
	{"sort", "sort", oChoice, "flat", []string{"cum", "flat"}},
	{"dropneg", "drop_negative", oBool, "false", nil},
	{"n", "nodecount", oInt, "-1", nil},
	{"nf", "nodefraction", oFloat, "0.005", nil},
	{"ef", "edgefraction", oFloat, "0.001", nil},
	{"trim", "trim", oBool, "true", nil},
	{"f", "focus", oStr, "", nil},
	{"i", "ignore", oStr, "", nil},
	{"prunefrom", "prune_from", oStr, "", nil},
	{"h", "hide", oStr, "", nil},
	{"s", "show", oStr, "", nil},
	{"sf", "show_from", oStr, "", nil},
	{"tf", "tagfocus", oStr, "", nil},
	{"ti", "tagignore", oStr, "", nil},
	{"ts", "tagshow", oStr, "", nil},
	{"th", "taghide", oStr, "", nil},
	{"noinlines", "noinlines", oBool, "false", nil},
	{"showcolumns", "showcolumns", oBool, "false", nil},
	{"g", "granularity", oChoice, "", []string{"functions", "filefunctions", "files", "lines", "addresses"}},
}

var (
	boolTrue  = []string{"t", "true", "1", "yes", "y", "T"}
	boolFalse = []string{"f", "false", "0", "no", "n"}
	intVals   = []string{"0", "1", "5", "80", "1000", "-1", "-7", "2147483647", "123456789"}
	fltVals   = []string{"0", "0.1", "0.5", "1", "0.005", "0.001", "0.25", "0.123456789", "0.000123456789", "0.3333333333333333", "1e-9", "7.000000001"}
	strVals   = []string{"true", "false", "t", "f", "0", "-1", "foo", "main", "a.b", "x|y", "foo bar", "ä", "&=?#%+", "\"q\"", "a,b", "^(x)$", "1kb:", "k=v", "<b>"}
	unitVals  = []string{"auto", "ms", "kb", "seconds", "minimum", "bytes"}
	cfgNames  = []string{"a", "b", "my cfg", "ünï", "<x>&"}
)

// canonical value of an option as a string: bools "true"/"false", numbers in
// shortest decimal form, strings as is.
func canonVal(sp optSpec, raw string) (string, bool) {
	switch sp.kind {
	case oBool:
		switch strings.ToLower(raw) {
		case "true", "t", "yes", "y", "1":
			return "true", true
		case "false", "f", "no", "n", "0":
			return "false", true
		}
		return "", false
	case oInt:
		n, err := strconv.Atoi(raw)
		if err != nil {
			return "", false
		}
		return strconv.Itoa(n), true
	case oFloat:
		f, err := strconv.ParseFloat(raw, 64)
		if err != nil {
			return "", false
		}
		return strconv.FormatFloat(f, 'g', -1, 64), true
	case oChoice:
		for _, c := range sp.choices {
			if c == raw {
				return raw, true
			}
		}
		return "", false
	}
	return raw, true
}

// savedCfg is one named configuration of the model: every option -> canonical value.
type savedCfg struct {
	Name string
	Vals map[string]string // json name -> canonical value
}

func (c savedCfg) clone() savedCfg {
	m := map[string]string{}
	for k, v := range c.Vals {
		m[k] = v
	}
	return savedCfg{c.Name, m}
}

func (c savedCfg) String() string {
	var parts []string
	for _, sp := range optSpecs {
		if v := c.Vals[sp.json]; v != zeroOf(sp) {
			parts = append(parts, sp.json+"="+v)
		}
	}
	return c.Name + "{" + strings.Join(parts, ",") + "}"
}

func zeroOf(sp optSpec) string {
	switch sp.kind {
	case oBool:
		return "false"
	case oInt, oFloat:
		return "0"
	}
	return ""
}

type settingsModel []savedCfg

func (m settingsModel) clone() settingsModel {
	out := make(settingsModel, len(m))
	for i, c := range m {
		out[i] = c.clone()
	}
	return out
}

func (m settingsModel) String() string {
	var parts []string
	for _, c := range m {
		parts = append(parts, c.String())
	}
	return "[" + strings.Join(parts, " ") + "]"
}

func (m settingsModel) find(name string) int {
	for i, c := range m {
		if c.Name == name {
			return i
		}
	}
	return -1
}

// c19op is one request of a history.
type c19op struct {
	Kind   string            // save | delete | render | clone
	Name   string            // config name
	Params map[string]string // url param -> raw value (save, render)
	From   string            // clone: source config
}

func (o c19op) String() string {
	var ps []string
	for _, sp := range optSpecs {
		if v, ok := o.Params[sp.url]; ok {
			ps = append(ps, sp.url+"="+v)
		}
	}
	switch o.Kind {
	case "clone":
		return fmt.Sprintf("clone(%q <- menu URL of %q)", o.Name, o.From)
	}
	return fmt.Sprintf("%s(%q %s)", o.Kind, o.Name, strings.Join(ps, "&"))
}

func (o c19op) target() string {
	q := url.Values{}
	for k, v := range o.Params {
		q.Set(k, v)
	}
	switch o.Kind {
	case "save":
		q.Set("config", o.Name)
		return "/saveconfig?" + q.Encode()
	case "delete":
		q.Set("config", o.Name)
		return "/deleteconfig?" + q.Encode()
	}
	return "/top?" + q.Encode()
}

// apply returns the model after the op and whether the op must succeed.
func (m settingsModel) apply(o c19op) (settingsModel, bool) {
	switch o.Kind {
	case "save":
		if o.Name == "" {
			return m, false
		}
		vals := map[string]string{}
		for _, sp := range optSpecs {
			vals[sp.json] = sp.def
			if sp.kind == oFloat || sp.kind == oInt {
				vals[sp.json], _ = canonVal(sp, sp.def)
			}
		}
		for _, sp := range optSpecs {
			raw, ok := o.Params[sp.url]
			if !ok || raw == "" {
				continue // cleared to the empty string: unset, takes its default
			}
			cv, ok := canonVal(sp, raw)
			if !ok {
				return m, false // invalid value: request fails, nothing changes
			}
			vals[sp.json] = cv
		}
		out := m.clone()
		if i := out.find(o.Name); i >= 0 {
			out[i].Vals = vals
		} else {
			out = append(out, savedCfg{o.Name, vals})
		}
		return out, true
	case "delete":
		i := m.find(o.Name)
		if i < 0 {
			return m, false
		}
		out := m.clone()
		return append(out[:i], out[i+1:]...), true
	}
	return m, true
}

// decodeSettings is the engine's own reader of settings.json.
func decodeSettings(data []byte, exists bool) (settingsModel, error) {
	if !exists {
		return settingsModel{}, nil
	}
	var doc struct {
		Configs []map[string]interface{} `json:"configs"`
	}
	dec := json.NewDecoder(strings.NewReader(string(data)))
	dec.UseNumber()
	if err := dec.Decode(&doc); err != nil {
		return nil, err
	}
	if dec.More() {
		return nil, fmt.Errorf("trailing data after JSON document")
	}
	out := settingsModel{}
	for _, c := range doc.Configs {
		sc := savedCfg{Vals: map[string]string{}}
		if n, ok := c["name"].(string); ok {
			sc.Name = n
		}
		for _, sp := range optSpecs {
			v, ok := c[sp.json]
			if !ok {
				sc.Vals[sp.json] = zeroOf(sp)
				continue
			}
			switch x := v.(type) {
			case bool:
				sc.Vals[sp.json] = strconv.FormatBool(x)
			case json.Number:
				if sp.kind == oInt {
					n, err := x.Int64()
					if err != nil {
						return nil, fmt.Errorf("field %s: %v", sp.json, err)
					}
					sc.Vals[sp.json] = strconv.FormatInt(n, 10)
					break
				}
				f, err := x.Float64()
				if err != nil {
					return nil, err
				}
				sc.Vals[sp.json] = strconv.FormatFloat(f, 'g', -1, 64)
			case string:
				sc.Vals[sp.json] = x
			default:
				return nil, fmt.Errorf("field %s has unexpected JSON type %T", sp.json, v)
			}
		}
		out = append(out, sc)
	}
	return out, nil
}

func readState() (settingsModel, string, error) {
	data, ok := simos.GetFile(simSettings)
	m, err := decodeSettings(data, ok)
	return m, string(data), err
}

var (
	menuRE  = regexp.MustCompile(`(?s)<div id="config" class="menu-item">(.*?)<div id="download"`)
	entryRE = regexp.MustCompile(`(?s)<a href="([^"]*)">(.*?)</a>`)
	tagRE   = regexp.MustCompile(`(?s)<[^>]*>`)
)

type menuEntry struct {
	Name  string
	Query url.Values
}

// menuFallbacks counts pages whose config menu could not be located in the
// HTML (a template refactoring, say); the entries are then taken from
// configMenu directly, so that a change of markup is not reported as a
// violation of C19.
var menuFallbacks int

func parseMenu(body string) ([]menuEntry, error) {
	m := menuRE.FindStringSubmatch(body)
	if m == nil || len(entryRE.FindAllStringSubmatch(m[1], -1)) == 0 {
		menuFallbacks++
		var out []menuEntry
		for _, e := range configMenu(simSettings, url.URL{Path: "/top"}) {
			u, err := url.Parse(e.URL)
			if err != nil {
				return nil, fmt.Errorf("menu URL %q: %v", e.URL, err)
			}
			out = append(out, menuEntry{Name: e.Name, Query: u.Query()})
		}
		return out, nil
	}
	var out []menuEntry
	for _, e := range entryRE.FindAllStringSubmatch(m[1], -1) {
		href := html.UnescapeString(e[1])
		u, err := url.Parse(href)
		if err != nil {
			return nil, fmt.Errorf("menu URL %q: %v", href, err)
		}
		text := tagRE.ReplaceAllString(e[2], "")
		text = strings.TrimSpace(strings.NewReplacer("✓", "", "🗙", "").Replace(html.UnescapeString(text)))
		out = append(out, menuEntry{Name: text, Query: u.Query()})
	}
	return out, nil
}

// expectedQuery is what a menu link for cfg must carry: every option that
// differs from its default, nothing else (bools shortened to t/f).
func expectedQuery(c savedCfg) map[string]string {
	out := map[string]string{}
	for _, sp := range optSpecs {
		v := c.Vals[sp.json]
		def, _ := canonVal(sp, sp.def)
		if sp.kind == oStr || sp.kind == oChoice {
			def = sp.def
		}
		if v == def || v == "" {
			continue
		}
		out[sp.url] = v
	}
	return out
}

func checkMenuEntry(e menuEntry, c savedCfg) *violation {
	want := expectedQuery(c)
	for _, sp := range optSpecs {
		got, has := e.Query.Get(sp.url), e.Query.Has(sp.url)
		w, wants := want[sp.url]
		if !wants {
			if has && got != "" {
				// A default-valued option may legitimately be spelled out.
				if cv, ok := canonVal(sp, got); ok && cv == c.Vals[sp.json] {
					continue
				}
				return violf("restore-mismatch", "menu link of %q carries %s=%q but the saved value is %q", c.Name, sp.url, got, c.Vals[sp.json])
			}
			continue
		}
		cv, ok := canonVal(sp, got)
		if !has || !ok || cv != w {
			return violf("restore-mismatch", "menu link of %q: option %s saved as %q, link has %q (present=%v)", c.Name, sp.url, w, got, has)
		}
	}
	return nil
}

// ---- workload generation ----

func genC19Params(t *simrt.Tape, invalidOK bool) map[string]string {
	K := simrt.KGen
	p := map[string]string{}
	n := t.Choose(K, 6)
	for j := 0; j < n; j++ {
		sp := optSpecs[t.Choose(K, len(optSpecs))]
		switch sp.kind {
		case oBool:
			if t.Bool(K, 50) {
				p[sp.url] = boolTrue[t.Choose(K, len(boolTrue))]
			} else {
				p[sp.url] = boolFalse[t.Choose(K, len(boolFalse))]
			}
		case oInt:
			p[sp.url] = intVals[t.Choose(K, len(intVals))]
		case oFloat:
			p[sp.url] = fltVals[t.Choose(K, len(fltVals))]
		case oStr:
			if sp.url == "unit" {
				p[sp.url] = unitVals[t.Choose(K, len(unitVals))]
			} else if t.Bool(K, 10) {
				p[sp.url] = dictStr(t, "foo")
			} else {
				p[sp.url] = strVals[t.Choose(K, len(strVals))]
			}
		case oChoice:
			p[sp.url] = sp.choices[t.Choose(K, len(sp.choices))]
		}
		if t.Bool(K, 8) {
			p[sp.url] = "" // cleared
		}
		if invalidOK && sp.kind != oStr && t.Bool(K, 4) {
			p[sp.url] = "bogus!"
		}
	}
	return p
}

// c19Bulk widens the universe of configuration names for one execution, so
// that settings.json grows past a few KiB (buffer and page boundaries).
var c19Bulk int

func c19Name(t *simrt.Tape) string {
	K := simrt.KGen
	if c19Bulk > 0 {
		return fmt.Sprintf("config-%02d-%s", t.Choose(K, c19Bulk), strings.Repeat("x", 20))
	}
	return cfgNames[t.Choose(K, len(cfgNames))]
}

func genC19Op(t *simrt.Tape, mutatingOnly bool) c19op {
	K := simrt.KGen
	name := c19Name(t)
	switch k := t.Choose(K, 10); {
	case k < 5:
		return c19op{Kind: "save", Name: name, Params: genC19Params(t, !mutatingOnly)}
	case k < 8:
		return c19op{Kind: "delete", Name: name}
	case k < 9 && !mutatingOnly:
		return c19op{Kind: "render", Params: genC19Params(t, false)}
	case !mutatingOnly:
		return c19op{Kind: "clone", Name: c19Name(t), From: name}
	}
	return c19op{Kind: "save", Name: name, Params: genC19Params(t, false)}
}

// ---- running requests against the real handlers ----

type c19session struct {
	handlers map[string]http.Handler
}

func (s *c19session) do(target string) webResp {
	plain, _ := splitAbort(target)
	u, err := url.Parse(plain)
	if err != nil {
		return webResp{Code: 400}
	}
	h := s.handlers[u.Path]
	if h == nil {
		return webResp{Code: 404}
	}
	return serve(h, target)
}

// withWeb runs script inside a real driver.PProf web session (simulated task
// 0 of a new run) and returns the scheduler result and PProf's error.
func withWeb(x *xctx, cfg simrt.Config, profileBytes []byte, script func(s *c19session)) (simrt.Result, error) {
	simos.PutFile("/sim/cwd/prof.pb.gz", profileBytes)
	ui := newTaskUI()
	var perr error
	o := &plugin.Options{
		Flagset: newFlags([]string{"-http=localhost:8080", "-no_browser", "prof.pb.gz"}),
		UI:      ui,
		Writer:  newWriter(),
		Sym:     nopSym{},
		Obj:     nopObj{},
		HTTPServer: func(args *plugin.HTTPServerArgs) error {
			script(&c19session{handlers: args.Handlers})
			return nil
		},
		HTTPTransport: failTransport{},
	}
	cfg.Tape = x.t
	res := simrt.Exec(cfg, func() { perr = PProf(o) })
	x.note(res)
	return res, perr
}

type failTransport struct{}

func (failTransport) RoundTrip(*http.Request) (*http.Response, error) {
	return nil, fmt.Errorf("no network in this scenario")
}

// checkAgainst compares the file with the model.
func checkAgainst(want settingsModel, what string) *violation {
	got, raw, err := readState()
	if err != nil {
		return violf("settings-corrupt", "%s: settings.json does not decode: %v; contents %q", what, err, short(raw, 200))
	}
	if got.String() != want.String() {
		return violf("settings-mismatch", "%s: settings.json holds %s, model says %s", what, got, want)
	}
	return nil
}

func c19Profile() []byte {
	t := simrt.NewTape(7)
	return encodeProfile(genProfile(t, genOpts{maxFuncs: 3, maxSamples: 3, types: 1, mappings: 1, fixedNames: true}))
}

var c19ProfBytes []byte

// execOp performs one op sequentially and checks it against the model.
func execOp(x *xctx, s *c19session, model settingsModel, o c19op) (settingsModel, *violation) {
	if o.Kind == "clone" {
		// Round trip through the menu URL: render, take From's link, save it under Name.
		r := s.do("/top")
		if r.Panic != "" {
			return model, violf("panic", "render panicked: %s", r.Panic)
		}
		if !httpOK(r.Code) {
			return model, nil
		}
		menu, err := parseMenu(r.Body)
		if err != nil {
			return model, violf("menu-unparsable", "%v", err)
		}
		i := model.find(o.From)
		if i < 0 {
			return model, nil
		}
		var src *menuEntry
		for j := range menu {
			if menu[j].Name == o.From && j > 0 {
				src = &menu[j]
			}
		}
		if src == nil {
			return model, violf("menu-missing", "saved config %q not in menu", o.From)
		}
		x.probe("url_round_trip")
		q := url.Values{}
		for k, v := range src.Query {
			q[k] = v
		}
		q.Set("config", o.Name)
		r2 := s.do("/saveconfig?" + q.Encode())
		if r2.Panic != "" {
			return model, violf("panic", "saveconfig panicked: %s", r2.Panic)
		}
		if !httpOK(r2.Code) {
			return model, violf("round-trip-rejected", "saving the menu URL of %q was rejected: %d %s", o.From, r2.Code, short(r2.Body, 100))
		}
		out := model.clone()
		c := model[i].clone()
		c.Name = o.Name
		if j := out.find(o.Name); j >= 0 {
			out[j] = c
		} else {
			out = append(out, c)
		}
		return out, checkAgainst(out, o.String())
	}
	next, mustOK := model.apply(o)
	r := s.do(o.target())
	if r.Panic != "" {
		return model, violf("panic", "%s panicked: %s", o, r.Panic)
	}
	switch o.Kind {
	case "save", "delete":
		if mustOK && !httpOK(r.Code) {
			return model, violf("op-rejected", "%s answered %d %q, expected success", o, r.Code, short(r.Body, 100))
		}
		if !mustOK && httpOK(r.Code) {
			return model, violf("op-accepted", "%s answered 200, expected an error (model %s)", o, model)
		}
		if v := checkAgainst(next, o.String()); v != nil {
			return model, v
		}
		if len(model) > 1 && o.Kind == "save" {
			x.probe("save_among_others")
		}
		return next, nil
	case "render":
		if !httpOK(r.Code) {
			return model, nil // e.g. invalid regexp in a filter: reported as an error
		}
		menu, err := parseMenu(r.Body)
		if err != nil {
			return model, violf("menu-unparsable", "%v", err)
		}
		if len(menu) != len(model)+1 {
			return model, violf("menu-mismatch", "menu lists %d entries, model has %d saved configs: %v", len(menu), len(model), menu)
		}
		for i, c := range model {
			if menu[i+1].Name != c.Name {
				return model, violf("menu-mismatch", "menu entry %d is %q, model says %q", i+1, menu[i+1].Name, c.Name)
			}
			if len(o.Params) == 0 {
				if v := checkMenuEntry(menu[i+1], c); v != nil {
					return model, v
				}
				x.probe("menu_entry_checked")
			}
		}
	}
	return model, nil
}

func runC19(x *xctx) *violation {
	if c19ProfBytes == nil {
		c19ProfBytes = c19Profile()
	}
	t := x.t
	mode := t.Choose(simrt.KCfg, 10)
	switch {
	case mode < 3:
		return c19Sequential(x)
	case mode < 6:
		return c19Faults(x)
	case mode < 7:
		return c19Exhaustive(x)
	default:
		return c19Concurrent(x)
	}
}

// (a) sequential histories.
func c19Sequential(x *xctx) *violation {
	t := x.t
	freshProcess(true)
	c19Bulk = 0
	n := 1 + t.Choose(simrt.KGen, 12)
	if t.Bool(simrt.KCfg, 10) {
		c19Bulk = 40
		n = 30 + t.Choose(simrt.KGen, 40)
		defer func() { c19Bulk = 0 }()
	}
	ops := make([]c19op, n)
	for i := range ops {
		ops[i] = genC19Op(t, false)
	}
	// Always end with a plain render so the menu is checked.
	ops = append(ops, c19op{Kind: "render"})
	var viol *violation
	model := settingsModel{}
	res, err := withWeb(x, simrt.Config{Strategy: simrt.StratRunToBlock}, c19ProfBytes, func(s *c19session) {
		for _, o := range ops {
			x.tr("op %s", o)
			var v *violation
			model, v = execOp(x, s, model, o)
			if v != nil {
				viol = v
				return
			}
			x.states[model.String()] = true
		}
	})
	if viol != nil {
		return viol
	}
	if err != nil {
		return violf("pprof-error", "PProf returned %v", err)
	}
	if v := resultViolation(res); v != nil {
		return v
	}
	x.nontriv[fmt.Sprintf("seq:%d:%s", n, model)] = true
	x.sample = map[string]interface{}{"mode": "sequential", "ops": opStrings(ops), "final": model.String()}
	return nil
}

func opStrings(ops []c19op) []string {
	var out []string
	for _, o := range ops {
		out = append(out, o.String())
	}
	return out
}

// httpOK: the request was accepted (any 2xx; the property does not fix the
// status code of a successful save, delete or page).
func httpOK(code int) bool { return code >= 200 && code < 300 }

func resultViolation(res simrt.Result) *violation {
	for _, p := range res.Panics {
		return violf("panic", "task %s panicked: %s\n%s", p.Task, p.Value, short(p.Stack, 1500))
	}
	switch res.Verdict {
	case simrt.Deadlock:
		return violf("deadlock", "deadlock: %s", res.Blocked)
	case simrt.StepLimit:
		return violf("hang", "step limit exceeded: %s", res.Blocked)
	}
	return nil
}

// (b) crash points and write faults, enumerated for one operation after a seeded prefix.
func c19Faults(x *xctx) *violation {
	t := x.t
	freshProcess(true)
	c19Bulk = 0
	np := t.Choose(simrt.KGen, 5)
	if t.Bool(simrt.KCfg, 8) {
		// a settings file of several KiB: many saved configurations before the
		// operation under faults
		c19Bulk = 40
		np = 25 + t.Choose(simrt.KGen, 20)
		defer func() { c19Bulk = 0 }()
	}
	prefix := make([]c19op, np)
	for i := range prefix {
		prefix[i] = genC19Op(t, true)
	}
	op := genC19Op(t, true)
	if ok := false; !ok {
		// make the enumerated op one that changes the file
		m := settingsModel{}
		for _, p := range prefix {
			m, _ = m.apply(p)
		}
		if _, changes := m.apply(op); !changes {
			op = c19op{Kind: "save", Name: cfgNames[t.Choose(simrt.KGen, len(cfgNames))], Params: genC19Params(t, false)}
		}
	}
	x.tr("prefix %v", opStrings(prefix))
	x.tr("operation under faults: %s", op)

	// Dry run: prefix, snapshot, the operation fault-free with the I/O log on.
	var pre, post settingsModel
	var snap *simos.Snapshot
	var viol *violation
	var log []simos.IOCall
	res, err := withWeb(x, simrt.Config{Strategy: simrt.StratRunToBlock}, c19ProfBytes, func(s *c19session) {
		model := settingsModel{}
		for _, o := range prefix {
			var v *violation
			if model, v = execOp(x, s, model, o); v != nil {
				viol = v
				return
			}
		}
		pre = model
		snap = simos.TakeSnapshot()
		simos.MarkBase()
		simos.StartLog()
		var v *violation
		if post, v = execOp(x, s, model, op); v != nil {
			viol = v
			return
		}
		log = simos.Log()
	})
	if viol != nil {
		return viol
	}
	if err != nil {
		return violf("pprof-error", "PProf returned %v", err)
	}
	if v := resultViolation(res); v != nil {
		return v
	}
	preS, postS := pre.String(), post.String()

	type plan struct {
		f    simos.Fault
		desc string
		// persisting fault: from this call on the disk stays full (-1: one-shot fault only)
		fullFrom    int64
		fullCreates bool
	}
	var plans []plan
	for _, c := range log {
		where := fmt.Sprintf("call %d %s(%s)", c.Index, simos.OpName(c.Op), simos.Base(c.Path))
		if c.Op == simos.OpWrite || c.Op == simos.OpCreate || c.Op == simos.OpMkdir {
			// The disk fills up and stays full: this and every later write fails,
			// whatever the program tries next (retry, fallback, clean-up).
			never := simos.Fault{At: -1}
			plans = append(plans, plan{never, "disk full (writes) from " + where + " on", c.Index, false})
			plans = append(plans, plan{never, "disk full (writes and creations) from " + where + " on", c.Index, true})
			if c.Op == simos.OpWrite && c.N > 1 {
				for _, k := range []int{1, c.N / 2, c.N - 1} {
					plans = append(plans, plan{simos.Fault{At: c.Index, Kind: simos.FShortWrite, Arg: k, Errno: syscall.ENOSPC},
						fmt.Sprintf("disk full after %d of %d bytes of %s, and from then on", k, c.N, where), c.Index + 1, k%2 == 0})
				}
			}
		}
		plans = append(plans, plan{simos.Fault{At: c.Index, Kind: simos.FCrashBefore}, "kill before " + where, -1, false})
		plans = append(plans, plan{simos.Fault{At: c.Index, Kind: simos.FCrashAfter}, "kill after " + where, -1, false})
		if c.Op != simos.OpRead && c.Op != simos.OpStat {
			for _, e := range []syscall.Errno{syscall.ENOSPC, syscall.EIO, syscall.EACCES} {
				plans = append(plans, plan{simos.Fault{At: c.Index, Kind: simos.FErr, Errno: e}, fmt.Sprintf("%v at %s", e, where), -1, false})
			}
		} else {
			plans = append(plans, plan{simos.Fault{At: c.Index, Kind: simos.FErr, Errno: syscall.EIO}, "EIO at " + where, -1, false})
		}
		if c.Op == simos.OpWrite {
			// Every byte position in the thorough tier; in the quick tier every
			// position of short writes and, for long ones, the first and last 48
			// bytes plus every 8th in between.
			keep := func(k int) bool {
				return x.tier == "thorough" || c.N <= 160 || k < 48 || k >= c.N-48 || k%8 == 0
			}
			for k := 1; k < c.N; k++ {
				if !keep(k) {
					continue
				}
				plans = append(plans, plan{simos.Fault{At: c.Index, Kind: simos.FCrashMid, Arg: k}, fmt.Sprintf("kill after %d of %d bytes of %s", k, c.N, where), -1, false})
			}
			for k := 0; k < c.N; k++ {
				if !keep(k) {
					continue
				}
				e := syscall.ENOSPC
				if k%7 == 3 {
					e = syscall.EIO
				}
				plans = append(plans, plan{simos.Fault{At: c.Index, Kind: simos.FShortWrite, Arg: k, Errno: e}, fmt.Sprintf("%v after %d of %d bytes of %s", e, k, c.N, where), -1, false})
			}
		}
	}
	x.stats["crash_points"] += int64(len(plans))
	x.stats["io_calls_of_op"] += int64(len(log))
	probeOp := c19op{Kind: "save", Name: "probe", Params: map[string]string{"f": "probe"}}

	for pi, pl := range plans {
		if pi%32 == 31 && pastWorkerDeadline(45*time.Second) {
			x.probe("crash_point_enumeration_cut_at_worker_deadline")
			break
		}
		// A fresh process over the pre-state disk runs only the operation, with exactly one fault.
		simrt.ReinitAll()
		simos.RestoreSnapshot(snap)
		simos.Setenv("HOME", simHome)
		var opPanic string
		viol = nil
		res, _ := withWeb(x, simrt.Config{Strategy: simrt.StratRunToBlock}, c19ProfBytes, func(s *c19session) {
			simos.MarkBase()
			simos.StartLog()
			simos.SetPlan([]simos.Fault{pl.f})
			simos.SetDiskFullFrom(pl.fullFrom, pl.fullCreates, syscall.ENOSPC)
			r := s.do(op.target())
			simos.SetPlan(nil)
			if n := simos.FiredFull(); n > 0 {
				x.fault("disk:full-persisting", n)
			}
			simos.SetDiskFullFrom(-1, false, 0) // space is freed: the faults stop here
			opPanic = r.Panic
			if simrt.Aborting() {
				return
			}
			// The process is still alive (plain I/O error).
			x.probe("io_error_survived")
			st, raw, err := readState()
			if err != nil {
				viol = violf("torn-after-fault", "%s during %s (answered %d): settings.json afterwards does not decode (%v): %d bytes %q", pl.desc, op, r.Code, err, len(raw), short(raw, 120))
				return
			}
			x.states[st.String()] = true
			switch got := st.String(); {
			case httpOK(r.Code) && got != postS:
				viol = violf("acknowledged-but-lost", "%s during %s: request answered 200 but settings.json holds %s, not %s", pl.desc, op, got, postS)
				return
			case !httpOK(r.Code) && got != preS && got != postS:
				viol = violf("mixed-after-fault", "%s during %s: settings.json holds %s, neither the previous %s nor the new %s", pl.desc, op, got, preS, postS)
				return
			}
			if !httpOK(r.Code) {
				x.probe("failed_op_reported")
			}
			// Faults have stopped: a following save must go through in this same process.
			viol = c19Liveness(x, s, probeOp, pl.desc, false)
		})
		simos.SetPlan(nil)
		if opPanic != "" {
			x.tr("fault: %s", pl.desc)
			return violf("panic", "%s under %s panicked: %s", op, pl.desc, opPanic)
		}
		if res.Verdict != simrt.Killed {
			if viol != nil {
				x.tr("fault: %s", pl.desc)
				return viol
			}
			if v := resultViolation(res); v != nil {
				return v
			}
			continue
		}
		// Killed: restart over whatever survived on disk.
		x.probe("killed")
		st, raw, err := readState()
		if err != nil {
			x.tr("fault: %s", pl.desc)
			return violf("torn-after-crash", "%s during %s: settings.json afterwards is neither old nor new: does not decode (%v); %d bytes %q", pl.desc, op, err, len(raw), short(raw, 120))
		}
		x.states[st.String()] = true
		if got := st.String(); got != preS && got != postS {
			x.tr("fault: %s", pl.desc)
			return violf("mixed-after-crash", "%s during %s: settings.json holds %s, neither the previous %s nor the new %s", pl.desc, op, got, preS, postS)
		}
		if st.String() == postS && preS != postS {
			x.probe("crash_after_commit_point")
		} else {
			x.probe("crash_before_commit_point")
		}
		simrt.ReinitAll()
		simos.Setenv("HOME", simHome)
		viol = nil
		res2, _ := withWeb(x, simrt.Config{Strategy: simrt.StratRunToBlock}, c19ProfBytes, func(s *c19session) {
			viol = c19Liveness(x, s, probeOp, pl.desc, true)
		})
		if viol != nil {
			x.tr("fault: %s", pl.desc)
			return viol
		}
		if v := resultViolation(res2); v != nil {
			return v
		}
	}
	x.nontriv[fmt.Sprintf("faults:%s:%s", preS, op)] = true
	x.sample = map[string]interface{}{"mode": "fault-enumeration", "prefix": opStrings(prefix), "op": op.String(), "io_calls": len(log), "fault_plans": len(plans)}
	return nil
}

// c19Liveness: with no fault pending, a save succeeds and the file decodes
// to (state before it) + probe. For the alive-process case it also checks
// old-or-new for the faulted operation via the state it finds.
func c19Liveness(x *xctx, s *c19session, probeOp c19op, faultDesc string, afterRestart bool) *violation {
	before, raw, err := readState()
	if err != nil {
		return violf("torn-after-fault", "%s: settings.json afterwards does not decode (%v): %q", faultDesc, err, short(raw, 120))
	}
	want, _ := before.apply(probeOp)
	r := s.do(probeOp.target())
	if r.Panic != "" {
		return violf("panic", "save after %s panicked: %s", faultDesc, r.Panic)
	}
	if !httpOK(r.Code) {
		return violf("stuck-after-fault", "after %s (restart=%v) a following save fails: %d %s", faultDesc, afterRestart, r.Code, short(r.Body, 160))
	}
	if v := checkAgainst(want, "save after "+faultDesc); v != nil {
		v.Class = "stuck-after-fault"
		return v
	}
	return nil
}

// (c) concurrent requests.
type c19call struct {
	op       c19op
	inv, ret int64
	code     int
	panicked string
	started  bool
	done     bool
}

// c19Enum makes c19Concurrent use the enumerable scheduling strategy and no
// kill (set by c19Exhaustive around its calls).
var c19Enum bool

// c19Exhaustive: for one seeded workload of two or three single-request
// clients, every schedule with at most two preemptive switches at sync and
// I/O points is run (not sampled).
func c19Exhaustive(x *xctx) *violation {
	c19Enum = true
	defer func() { c19Enum = false }()
	// The workload comes from a sub-tape seeded by one draw of the run's tape,
	// so that the enumeration below works on a tape that starts exactly where
	// c19Concurrent starts drawing. First run: draws the workload (and random
	// scheduling values, which the enumeration discards).
	main := x.t
	defer func() { x.t = main }()
	x.t = simrt.NewTape(uint64(main.Choose(simrt.KCfg, 1<<30)))
	if v := c19Concurrent(x); v != nil {
		return v
	}
	base, kinds := x.t.Used(), x.t.UsedKinds()
	// quick tier: every schedule with at most one preemptive switch; thorough
	// tier: at most two (tens of thousands of schedules per workload).
	bound, maxRuns := 1, 3000
	if x.tier == "thorough" {
		bound, maxRuns = 2, 80000
	}
	v, runs, complete := exploreBounded(x, base, kinds, bound, maxRuns, func() *violation { return c19Concurrent(x) })
	x.stats["enumerated_schedules"] += int64(runs)
	if complete {
		x.probe(fmt.Sprintf("schedule_space_exhausted_preemption_bound_%d", bound))
	} else if v == nil {
		x.probe("schedule_enumeration_capped")
	}
	if v != nil {
		v.Detail = fmt.Sprintf("(systematic enumeration, schedule %d) %s", runs, v.Detail)
		return v
	}
	if s, ok := x.sample.(map[string]interface{}); ok {
		s["mode"] = "concurrent-exhaustive"
		s["schedules_enumerated"] = runs
		s["preemption_bound"] = bound
		s["complete_for_that_bound"] = complete
	}
	return nil
}

func c19Concurrent(x *xctx) *violation {
	if c19ProfBytes == nil {
		c19ProfBytes = c19Profile()
	}
	t := x.t
	K := simrt.KGen
	freshProcess(true)
	np := t.Choose(K, 3)
	prefix := make([]c19op, np)
	for i := range prefix {
		prefix[i] = genC19Op(t, true)
	}
	ntasks := 2 + t.Choose(K, 2)
	if c19Enum {
		ntasks = 2 // two clients, one request each: small enough to enumerate completely
	}
	perTask := make([][]c19op, ntasks)
	total := 0
	for i := range perTask {
		n := 1 + t.Choose(K, 2)
		if total+n > 5 || c19Enum {
			n = 1
		}
		for j := 0; j < n; j++ {
			perTask[i] = append(perTask[i], genC19Op(t, true))
		}
		total += n
	}
	cfg := simrt.Config{Strategy: simrt.StratRandom, SwitchT: []int{128, 26, 64, 200}[t.Choose(simrt.KCfg, 4)]}
	if t.Bool(simrt.KCfg, 30) {
		cfg.Strategy = simrt.StratPCT
		cfg.PCTDepth = 1 + t.Choose(simrt.KCfg, 3)
		cfg.PCTSteps = 60
	}
	calls := make([][]c19call, ntasks)
	var pre settingsModel
	var viol *violation
	// Optionally the process is killed at a seeded I/O call while the
	// requests are in flight (thorough tier: more often).
	crashAt, crashKind := -1, simos.FCrashBefore
	crashPct := 25
	if x.tier == "thorough" {
		crashPct = 45
	}
	if c19Enum {
		cfg = simrt.Config{Strategy: simrt.StratEnum}
		crashPct = 0
	}
	if t.Bool(simrt.KFault, crashPct) {
		crashAt = t.Choose(simrt.KFault, 12*total)
		crashKind = []int{simos.FCrashBefore, simos.FCrashAfter, simos.FCrashMid}[t.Choose(simrt.KFault, 3)]
	}
	res, err := withWeb(x, cfg, c19ProfBytes, func(s *c19session) {
		model := settingsModel{}
		for _, o := range prefix {
			var v *violation
			if model, v = execOp(x, s, model, o); v != nil {
				viol = v
				return
			}
		}
		pre = model
		if crashAt >= 0 {
			simos.MarkBase()
			simos.SetPlan([]simos.Fault{{At: int64(crashAt), Kind: crashKind, Arg: 1 + crashAt%97}})
		}
		var hs []*simrt.Handle
		for i := range perTask {
			i := i
			calls[i] = make([]c19call, len(perTask[i]))
			for j, o := range perTask[i] {
				calls[i][j].op = o
			}
			hs = append(hs, simrt.GoJoinable(fmt.Sprintf("client%d", i), func() {
				for j, o := range perTask[i] {
					c := &calls[i][j]
					c.inv = simrt.Seq()
					c.started = true
					r := s.do(o.target())
					c.ret = simrt.Seq()
					c.code, c.panicked = r.Code, r.Panic
					c.done = true
				}
			}))
		}
		for _, h := range hs {
			simrt.Join(h)
		}
	})
	simos.SetPlan(nil)
	if os.Getenv("VERIF_DEBUG_ENUM") != "" {
		fmt.Fprintf(os.Stderr, "c19Concurrent: enum=%v strategy=%v tasks=%d steps=%d switches=%d verdict=%v tapepos=%d err=%v viol=%v\n", c19Enum, cfg.Strategy, res.Tasks, res.Steps, res.Switches, res.Verdict, x.t.Pos(), err, viol)
	}
	if viol != nil {
		return viol
	}
	killed := res.Verdict == simrt.Killed
	if !killed {
		if err != nil {
			return violf("pprof-error", "PProf returned %v", err)
		}
		if v := resultViolation(res); v != nil {
			return v
		}
	}
	var flat []c19call
	for i := range calls {
		for _, c := range calls[i] {
			if c.panicked != "" && !killed {
				return violf("panic", "%s panicked: %s", c.op, c.panicked)
			}
			if !c.started {
				continue // never issued before the process died
			}
			flat = append(flat, c)
			if c.done {
				x.tr("client%d %s -> %d  [inv %d, ret %d]", i, c.op, c.code, c.inv, c.ret)
			} else {
				x.tr("client%d %s in flight when the process was killed [inv %d]", i, c.op, c.inv)
			}
		}
	}
	if killed {
		x.probe("killed_during_concurrent_requests")
		x.tr("process killed: %s at I/O call %d of the concurrent phase", simos.FaultName(crashKind), crashAt)
		final, raw, derr := readState()
		if derr != nil {
			return violf("torn-after-crash", "killed (%s at I/O call %d) during concurrent requests %v: settings.json does not decode (%v): %q", simos.FaultName(crashKind), crashAt, callStrings(flat), derr, short(raw, 160))
		}
		if !linearizable(pre, flat, final.String()) {
			return violf("acknowledged-lost-after-crash", "killed during concurrent requests %v from state %s: settings.json holds %s, which no order of the acknowledged requests plus any subset of the in-flight ones explains", callStrings(flat), pre, final)
		}
		// restart: a following save must work
		simrt.ReinitAll()
		simos.Setenv("HOME", simHome)
		probeOp := c19op{Kind: "save", Name: "probe", Params: map[string]string{"f": "probe"}}
		res2, _ := withWeb(x, simrt.Config{Strategy: simrt.StratRunToBlock}, c19ProfBytes, func(s *c19session) {
			viol = c19Liveness(x, s, probeOp, "kill during concurrent requests", true)
		})
		if viol != nil {
			return viol
		}
		if v := resultViolation(res2); v != nil {
			return v
		}
		x.nontriv[fmt.Sprintf("conc-crash:%s:%v:%d", pre, callStrings(flat), crashAt)] = true
		x.states[final.String()] = true
		x.sample = map[string]interface{}{"mode": "concurrent+kill", "initial": pre.String(), "history": callStrings(flat), "killed_at_io_call": crashAt, "final": final.String()}
		return nil
	}
	final, raw, derr := readState()
	if derr != nil {
		return violf("settings-corrupt", "after concurrent requests settings.json does not decode: %v %q", derr, short(raw, 200))
	}
	overl := false
	for i := range flat {
		for j := range flat {
			if i != j && flat[i].inv < flat[j].ret && flat[j].inv < flat[i].ret {
				overl = true
			}
		}
	}
	if overl {
		x.probe("requests_overlapped")
	}
	if res.Switches > 0 {
		x.probe("context_switch_inside_request")
	}
	if !linearizable(pre, flat, final.String()) {
		return violf("not-linearizable", "concurrent requests %v from state %s ended in %s: no sequential order explains responses and final state", callStrings(flat), pre, final)
	}
	x.nontriv[fmt.Sprintf("conc:%s:%v:%016x", pre, callStrings(flat), res.SwitchSig)] = true
	x.states[final.String()] = true
	x.sample = map[string]interface{}{"mode": "concurrent", "initial": pre.String(), "history": callStrings(flat), "final": final.String(), "context_switches": res.Switches}
	return nil
}

func callStrings(cs []c19call) []string {
	var out []string
	for _, c := range cs {
		if c.done {
			out = append(out, fmt.Sprintf("%s->%d", c.op, c.code))
		} else {
			out = append(out, fmt.Sprintf("%s->(in flight)", c.op))
		}
	}
	return out
}

// linearizable: exact search for an order of the calls that respects real
// time (a returned before b invoked => a before b), explains every response
// and ends in the observed final state.
func linearizable(init settingsModel, calls []c19call, final string) bool {
	n := len(calls)
	used := make([]bool, n)
	var rec func(m settingsModel, done int) bool
	rec = func(m settingsModel, done int) bool {
		if done == n {
			return m.String() == final
		}
		for i := 0; i < n; i++ {
			if used[i] {
				continue
			}
			if !calls[i].done {
				// In flight when the process died: it may or may not have taken
				// effect, and nothing was acknowledged.
				used[i] = true
				if rec(m, done+1) {
					used[i] = false
					return true
				}
				next, _ := m.apply(calls[i].op)
				if rec(next, done+1) {
					used[i] = false
					return true
				}
				used[i] = false
				continue
			}
			// i may go next only if no unused call returned before i was invoked.
			ok := true
			for j := 0; j < n; j++ {
				if j != i && !used[j] && calls[j].done && calls[j].ret < calls[i].inv {
					ok = false
				}
			}
			if !ok {
				continue
			}
			next, mustOK := m.apply(calls[i].op)
			if mustOK != (httpOK(calls[i].code)) {
				continue
			}
			used[i] = true
			if rec(next, done+1) {
				used[i] = false
				return true
			}
			used[i] = false
		}
		return false
	}
	return rec(init, 0)
}

var _ = sort.Strings
