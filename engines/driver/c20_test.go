//go:build verif

package driver

// C20: shared profile and tool state is safe under concurrent use.
//
// Built with -race. The baton hand-offs of the simulated scheduler are
// invisible to the race detector (simrt), so the detector sees exactly the
// synchronisation pprof performs itself while the interleaving is the one
// the tape dictates. Each scenario also has a result oracle: concurrent
// results must equal the one-at-a-time results.

import (
	"bytes"
	"encoding/json"
	"fmt"
	"net/url"
	"os"
	"sort"
	"strconv"
	"strings"

	"github.com/google/pprof/internal/binutils"
	"github.com/google/pprof/internal/plugin"
	"github.com/google/pprof/internal/verifsim/simexec"

	"github.com/google/pprof/internal/verifsim/simos"
	"github.com/google/pprof/internal/verifsim/simrt"
	"github.com/google/pprof/profile"
)

func init() {
	register(&engine{name: "c20", prop: "C20", run: runC20})
}

// c20Enum: the scenario is being enumerated systematically (two tasks, the
// enumerable strategy at sync and I/O granularity).
var c20Enum bool

// c20Exhaustive runs one seeded small workload of a scenario under EVERY
// schedule with at most one (quick) / two (thorough) preemptive switches at
// sync and I/O points.
func c20Exhaustive(x *xctx, name string, scenario func(*xctx) *violation) *violation {
	c20Enum = true
	defer func() { c20Enum = false }()
	main := x.t
	defer func() { x.t = main }()
	x.t = simrt.NewTape(uint64(main.Choose(simrt.KCfg, 1<<30)))
	if v := scenario(x); v != nil {
		return v
	}
	base, kinds := x.t.Used(), x.t.UsedKinds()
	bound, maxRuns := 1, 2000
	if x.tier == "thorough" {
		bound, maxRuns = 2, 60000
	}
	if name == "webmix" {
		// a schedule of two web requests costs three web sessions (the mix and
		// one reference session per request): one preemption, and a cap that
		// covers that space (about 7600 schedules) completely
		bound, maxRuns = 1, 9000
	}
	if s := os.Getenv("VERIF_ENUM_MAX"); s != "" {
		maxRuns, _ = strconv.Atoi(s)
	}
	v, runs, complete := exploreBounded(x, base, kinds, bound, maxRuns, func() *violation { return scenario(x) })
	x.stats["enumerated_schedules"] += int64(runs)
	if complete {
		x.probe(fmt.Sprintf("%s_schedule_space_exhausted_preemption_bound_%d", name, bound))
	} else if v == nil {
		x.probe(name + "_schedule_enumeration_capped")
	}
	if v != nil {
		v.Detail = fmt.Sprintf("(systematic enumeration, schedule %d) %s", runs, v.Detail)
		return v
	}
	if s, ok := x.sample.(map[string]interface{}); ok {
		s["mode"] = fmt.Sprint(s["mode"]) + "-exhaustive"
		s["schedules_enumerated"] = runs
		s["preemption_bound"] = bound
		s["complete_for_that_bound"] = complete
	}
	return nil
}

func c20Sched(t *simrt.Tape, steps int) simrt.Config {
	K := simrt.KCfg
	if c20Enum {
		return simrt.Config{Strategy: simrt.StratEnum}
	}
	cfg := simrt.Config{Strategy: simrt.StratRandom, SwitchT: []int{128, 26, 230, 64}[t.Choose(K, 4)], PreemptMean: []int{30, 200, 1500, 0}[t.Choose(K, 4)]}
	if t.Bool(K, 30) {
		cfg = simrt.Config{Strategy: simrt.StratPCT, PCTDepth: 1 + t.Choose(K, 3), PCTSteps: steps, PreemptMean: []int{20, 100}[t.Choose(K, 2)]}
	}
	return cfg
}

func runC20(x *xctx) *violation {
	enumPct := 3
	if x.tier == "thorough" {
		enumPct = 8
	}
	if x.t.Bool(simrt.KCfg, enumPct) {
		switch x.t.Choose(simrt.KCfg, 4) {
		case 0:
			return c20Exhaustive(x, "tempfiles", c20TempFiles)
		case 1:
			return c20Exhaustive(x, "options", c20Options)
		case 2:
			if x.tier != "thorough" {
				return c20Exhaustive(x, "options", c20Options)
			}
			return c20Exhaustive(x, "webmix", c20WebMix)
		default:
			return c20Exhaustive(x, "tools", c20Tools)
		}
	}
	switch m := x.t.Choose(simrt.KCfg, 10); {
	case m < 3:
		return c20SharedProfile(x)
	case m < 5:
		return c20Options(x)
	case m < 7:
		return c20TempFiles(x)
	case m < 8:
		if x.t.Bool(simrt.KCfg, 35) {
			// concurrent /saveconfig and /deleteconfig requests: must take effect
			// as if performed one after another (shared with the C19 engine)
			return c19Concurrent(x)
		}
		return c20WebMix(x)
	case m < 9:
		return c20Fetch(x)
	default:
		return c20Tools(x)
	}
}

// ---- scenario 1: Write / WriteUncompressed / Copy on one shared profile ----

func c20SharedProfile(x *xctx) *violation {
	t := x.t
	K := simrt.KGen
	freshProcess(true)
	p := genProfile(t, genOpts{labels: true, inlines: true, maxFuncs: 5, maxSamples: 6})
	// Go through a parse so that the shared profile is exactly what a fetch hands out.
	p, err := profile.ParseData(encodeProfile(p))
	if err != nil {
		panic(err)
	}
	var seqGz, seqRaw bytes.Buffer
	p.Write(&seqGz)
	p.WriteUncompressed(&seqRaw)
	seqCopy := p.Copy().String()
	ntasks := 2 + t.Choose(K, 3)
	kinds := make([][]int, ntasks)
	for i := range kinds {
		n := 1 + t.Choose(K, 2)
		for j := 0; j < n; j++ {
			kinds[i] = append(kinds[i], t.Choose(K, 3))
		}
	}
	type outT struct {
		kind int
		data []byte
		str  string
		err  error
	}
	outs := make([][]outT, ntasks)
	cfg := c20Sched(t, 400)
	cfg.Tape = t
	res := simrt.Exec(cfg, func() {
		var hs []*simrt.Handle
		for i := range kinds {
			i := i
			outs[i] = make([]outT, len(kinds[i]))
			hs = append(hs, simrt.GoJoinable(fmt.Sprintf("user%d", i), func() {
				for j, k := range kinds[i] {
					o := &outs[i][j]
					o.kind = k
					var b bytes.Buffer
					switch k {
					case 0:
						o.err = p.Write(&b)
						o.data = b.Bytes()
					case 1:
						o.err = p.WriteUncompressed(&b)
						o.data = b.Bytes()
					case 2:
						o.str = p.Copy().String()
					}
				}
			}))
		}
		for _, h := range hs {
			simrt.Join(h)
		}
	})
	x.note(res)
	if v := resultViolation(res); v != nil {
		return v
	}
	for i := range outs {
		for _, o := range outs[i] {
			switch {
			case o.err != nil:
				return violf("torn-serialization", "concurrent serialization failed: %v", o.err)
			case o.kind == 0 && !bytes.Equal(o.data, seqGz.Bytes()):
				return violf("torn-serialization", "concurrent Write produced %d bytes different from the sequential serialization (%d bytes)", len(o.data), seqGz.Len())
			case o.kind == 1 && !bytes.Equal(o.data, seqRaw.Bytes()):
				return violf("torn-serialization", "concurrent WriteUncompressed differs from the sequential serialization: %s", firstDiff(string(o.data), seqRaw.String()))
			case o.kind == 2 && o.str != seqCopy:
				return violf("torn-copy", "concurrent Copy differs from the sequential copy: %s", firstDiff(o.str, seqCopy))
			}
		}
	}
	if res.Switches > 0 {
		x.probe("switch_during_serialize")
		x.nontriv[fmt.Sprintf("prof:%v:%016x", kinds, res.SwitchSig)] = true
	}
	x.sample = map[string]interface{}{"mode": "shared-profile", "tasks": kinds, "switches": res.Switches}
	return nil
}

// ---- scenario 2: options read while being set ----

type regOp struct {
	menu     bool   // read through the saved-configuration menu instead
	names    string // menu entry names seen
	write    bool
	n        int
	f        string
	inv, ret int64
}

func c20Options(x *xctx) *violation {
	t := x.t
	K := simrt.KGen
	freshProcess(true)
	nw, nr := 1+t.Choose(K, 2), 1+t.Choose(K, 2)
	if c20Enum {
		nw, nr = 1, 1
	}
	ops := make([][]regOp, nw+nr)
	ctr := 0
	for i := 0; i < nw; i++ {
		n := 1 + t.Choose(K, 2)
		for j := 0; j < n; j++ {
			ctr++
			ops[i] = append(ops[i], regOp{write: true, n: 100 + ctr, f: fmt.Sprintf("f%d", 100+ctr)})
		}
	}
	for i := nw; i < nw+nr; i++ {
		ops[i] = make([]regOp, 1+t.Choose(K, 3))
	}
	// Some readers go through the menu of saved configurations, which reads
	// the settings file and fills each entry in from the current options.
	wantNames := "Default"
	if t.Bool(K, 50) {
		nsaved := 1 + t.Choose(K, 3)
		var entries []string
		for i := 0; i < nsaved; i++ {
			entries = append(entries, fmt.Sprintf(`{"name":"saved%d","focus":"f%d","nodecount":%d}`, i, i, 10+i))
			wantNames += fmt.Sprintf(",saved%d", i)
		}
		simos.PutFile(simSettings, []byte(`{"configs":[`+strings.Join(entries, ",")+`]}`))
		for i := nw; i < nw+nr; i++ {
			for j := range ops[i] {
				ops[i][j].menu = t.Bool(K, 50)
			}
		}
	}
	useConfigure := t.Bool(K, 40)
	cfg := c20Sched(t, 200)
	cfg.Tape = t
	init := currentConfig()
	res := simrt.Exec(cfg, func() {
		var hs []*simrt.Handle
		for i := range ops {
			i := i
			hs = append(hs, simrt.GoJoinable(fmt.Sprintf("opt%d", i), func() {
				for j := range ops[i] {
					o := &ops[i][j]
					o.inv = simrt.Seq()
					if o.write {
						if useConfigure && i == 1 {
							// the second writer assigns another option: neither
							// writer's assignments may undo the other's
							configure("focus", o.f)
						} else if useConfigure {
							configure("nodecount", fmt.Sprint(o.n))
						} else {
							c := currentConfig()
							c.NodeCount, c.Focus = o.n, o.f
							setCurrentConfig(c)
						}
					} else if o.menu {
						var names []string
						for _, e := range configMenu(simSettings, url.URL{Path: "/top"}) {
							names = append(names, e.Name)
						}
						o.names = strings.Join(names, ",")
					} else {
						c := currentConfig()
						o.n, o.f = c.NodeCount, c.Focus
					}
					simrt.Log("opt", "", int64(o.n))
					o.ret = simrt.Seq()
				}
			}))
		}
		for _, h := range hs {
			simrt.Join(h)
		}
	})
	x.note(res)
	if v := resultViolation(res); v != nil {
		return v
	}
	var flat []regOp
	for i := range ops {
		for _, o := range ops[i] {
			if o.menu {
				if o.names != wantNames {
					return violf("menu-differs-under-concurrency", "configuration menu read while options were being set lists %q, want %q", o.names, wantNames)
				}
				x.probe("menu_read_while_options_set")
				continue
			}
			flat = append(flat, o)
		}
	}
	for _, o := range flat {
		if !o.write && !useConfigure && o.n != init.NodeCount && o.f != fmt.Sprintf("f%d", o.n) {
			return violf("torn-option-read", "currentConfig() returned nodecount=%d with focus=%q: fields of two different assignments", o.n, o.f)
		}
	}
	if useConfigure && nw == 2 {
		// Writer 1 alone assigns focus, writer 0 alone nodecount: once both are
		// done each option holds its writer's last value.
		final := currentConfig()
		lastN, lastF := ops[0][len(ops[0])-1].n, ops[1][len(ops[1])-1].f
		if final.NodeCount != lastN || final.Focus != lastF {
			return violf("option-update-lost", "after one task assigned nodecount (last %d) and another focus (last %q), the options are nodecount=%d focus=%q: an assignment to one option undid an assignment to the other", lastN, lastF, final.NodeCount, final.Focus)
		}
		// the register check below is about nodecount only
		var nflat []regOp
		for _, o := range flat {
			if !(o.write && containsOp(ops[1], o)) {
				nflat = append(nflat, o)
			}
		}
		flat = nflat
	}
	if !registerLinearizable(init.NodeCount, flat) {
		return violf("options-not-linearizable", "option reads/writes %v from initial %d have no sequential explanation", regStrings(flat), init.NodeCount)
	}
	final := currentConfig()
	okFinal := final.NodeCount == init.NodeCount && nw == 0
	for _, o := range flat {
		if o.write && o.n == final.NodeCount {
			okFinal = true
		}
	}
	if !okFinal {
		return violf("options-lost", "final nodecount %d was never written", final.NodeCount)
	}
	if res.Switches > 0 {
		x.nontriv[fmt.Sprintf("opt:%v:%016x", regStrings(flat), res.SwitchSig)] = true
	}
	x.sample = map[string]interface{}{"mode": "options", "history": regStrings(flat), "configure": useConfigure}
	return nil
}

func containsOp(ops []regOp, o regOp) bool {
	for _, p := range ops {
		if p.write == o.write && p.n == o.n && p.f == o.f && p.inv == o.inv {
			return true
		}
	}
	return false
}

func regStrings(ops []regOp) []string {
	var out []string
	for _, o := range ops {
		k := "read"
		if o.write {
			k = "write"
		}
		out = append(out, fmt.Sprintf("%s(%d)[%d,%d]", k, o.n, o.inv, o.ret))
	}
	return out
}

// registerLinearizable: exact search over orders respecting real time.
func registerLinearizable(init int, ops []regOp) bool {
	n := len(ops)
	used := make([]bool, n)
	var rec func(cur int, done int) bool
	rec = func(cur int, done int) bool {
		if done == n {
			return true
		}
		for i := 0; i < n; i++ {
			if used[i] {
				continue
			}
			ok := true
			for j := 0; j < n; j++ {
				if j != i && !used[j] && ops[j].ret < ops[i].inv {
					ok = false
				}
			}
			if !ok {
				continue
			}
			next := cur
			if ops[i].write {
				next = ops[i].n
			} else if ops[i].n != cur {
				continue
			}
			used[i] = true
			if rec(next, done+1) {
				used[i] = false
				return true
			}
			used[i] = false
		}
		return false
	}
	return rec(init, 0)
}

// ---- scenario 3: temporary files created concurrently ----

func c20TempFiles(x *xctx) *violation {
	t := x.t
	K := simrt.KGen
	freshProcess(true)
	dir := "/tmp/work"
	simos.MkdirRaw(dir)
	prefixes := []string{"pprof", "profile"}
	// Some names exist already.
	pre := map[string]string{}
	for i := 1; i <= 3; i++ {
		if t.Bool(K, 40) {
			name := fmt.Sprintf("%s/%s%03d.tmp", dir, prefixes[t.Choose(K, 2)], i)
			pre[name] = "pre-existing " + name
			simos.PutFile(name, []byte(pre[name]))
		}
	}
	ntasks := 2 + t.Choose(K, 4)
	if c20Enum {
		ntasks = 2
	}
	type made struct {
		name, content string
		err           error
	}
	plan := make([][]string, ntasks)
	for i := range plan {
		n := 1 + t.Choose(K, 2)
		for j := 0; j < n; j++ {
			plan[i] = append(plan[i], prefixes[t.Choose(K, 2)])
		}
	}
	got := make([][]made, ntasks)
	cfg := c20Sched(t, 300)
	cfg.Tape = t
	concurrentCleanup := t.Bool(K, 40)
	var cleanupErr error
	res := simrt.Exec(cfg, func() {
		var hs []*simrt.Handle
		for i := range plan {
			i := i
			got[i] = make([]made, len(plan[i]))
			hs = append(hs, simrt.GoJoinable(fmt.Sprintf("tmp%d", i), func() {
				for j, pf := range plan[i] {
					m := &got[i][j]
					f, err := newTempFile(dir, pf, ".tmp")
					if err != nil {
						m.err = err
						continue
					}
					m.name = f.Name()
					m.content = fmt.Sprintf("task %d file %d", i, j)
					f.WriteString(m.content)
					f.Close()
					deferDeleteTempFile(m.name)
				}
			}))
		}
		if concurrentCleanup {
			// a clean-up running while files are still being created and
			// registered: whatever it misses must be removed by the next one
			hs = append(hs, simrt.GoJoinable("cleanup", func() { cleanupTempFiles() }))
		}
		for _, h := range hs {
			simrt.Join(h)
		}
	})
	x.note(res)
	if v := resultViolation(res); v != nil {
		return v
	}
	seen := map[string]string{}
	reused := map[string]bool{}
	for i := range got {
		for _, m := range got[i] {
			if m.err != nil {
				return violf("tempfile-error", "newTempFile failed: %v", m.err)
			}
			if _, ok := pre[m.name]; ok {
				return violf("tempfile-clobber", "newTempFile returned %s which already existed", m.name)
			}
			if other, dup := seen[m.name]; dup {
				if !concurrentCleanup {
					return violf("tempfile-duplicate", "two concurrent newTempFile calls returned the same name %s (%q and %q)", m.name, other, m.content)
				}
				// With a clean-up running concurrently a name may be handed out
				// again after its first file was removed; which creator's
				// contents remain is then not checked.
				reused[m.name] = true
			}
			seen[m.name] = m.content
		}
	}
	for name, want := range pre {
		if data, ok := simos.GetFile(name); !ok || string(data) != want {
			return violf("tempfile-clobber", "pre-existing file %s was overwritten or removed: %q", name, data)
		}
	}
	for name, want := range seen {
		data, ok := simos.GetFile(name)
		if (!ok && concurrentCleanup) || reused[name] {
			continue // already removed by the concurrent clean-up, or legitimately re-used
		}
		if !ok || string(data) != want {
			return violf("tempfile-clobber", "file %s holds %q, its creator wrote %q", name, data, want)
		}
	}
	// Registry cleaned exactly once.
	res2 := simrt.Exec(simrt.Config{Tape: t}, func() { cleanupErr = cleanupTempFiles() })
	x.note(res2)
	if cleanupErr != nil && !concurrentCleanup {
		// (with a concurrent clean-up a name may legitimately be registered
		// twice after its first file was removed; the second remove then fails)
		return violf("tempfile-cleanup", "cleanupTempFiles: %v", cleanupErr)
	}
	for name := range seen {
		if _, ok := simos.GetFile(name); ok {
			return violf("tempfile-cleanup", "deferred temp file %s not removed (registry lost an entry)", name)
		}
	}
	for name := range pre {
		if _, ok := simos.GetFile(name); !ok {
			return violf("tempfile-cleanup", "cleanup removed %s which was never registered", name)
		}
	}
	if res.Switches > 0 {
		names := []string{}
		for n := range seen {
			names = append(names, n)
		}
		sort.Strings(names)
		x.nontriv[fmt.Sprintf("tmp:%v:%v:%016x", plan, len(pre), res.SwitchSig)] = true
		x.states[strings.Join(names, ",")] = true
	}
	x.sample = map[string]interface{}{"mode": "tempfiles", "tasks": plan, "preexisting": len(pre), "created": len(seen)}
	return nil
}

// ---- scenario 4: concurrent web requests incl. /download and first template use ----

func c20WebMix(x *xctx) *violation { return c10WebConcurrent(x) }

// ---- scenario 5: concurrent fetch ----

func c20Fetch(x *xctx) *violation {
	t := x.t
	K := simrt.KGen
	n := 2 + t.Choose(K, 5)
	nb := t.Choose(K, 3)
	pct := 30
	if t.Bool(K, 12) {
		// many sources, most of them failing: bounded-parallelism bookkeeping
		n = 40 + t.Choose(K, 100)
		pct = []int{50, 85, 97}[t.Choose(K, 3)]
	}
	c := &c16case{diffBase: nb > 0 && t.Bool(K, 40), hasBase: nb > 0}
	// The same program in several builds and at two load addresses, with local
	// binaries installed for some builds: what one fetch learns about a binary
	// must not leak into the fetch running next to it.
	c.realTransport = t.Bool(K, 50) // pprof's own transport over the simulated TLS network
	multiBuild := t.Bool(K, 35)
	if multiBuild {
		for _, id := range []string{"b1d", "b2d", "b3d"} {
			if t.Bool(K, 60) {
				c.binaries = append(c.binaries, id)
			}
		}
	}
	for i := 0; i < n+nb; i++ {
		s := &c16src{idx: i, base: i >= n, kind: t.Choose(K, 3)}
		s.fault = c16FaultFor(t, s.kind, pct)
		s.samples = c16GenSamples(t)
		s.tornAt = 1 + t.Choose(simrt.KFault, 200)
		if multiBuild {
			s.buildID = []string{"b1d", "b2d", "b3d"}[t.Choose(K, 3)]
			if t.Bool(K, 40) {
				s.layout = 1
			}
		}
		if c.realTransport && s.kind == skURL {
			s.scheme = t.Choose(K, 4)
			if s.scheme == 2 && s.fault == sfGood {
				s.fault = sfCert
			}
		}
		s.materialize()
		c.srcs = append(c.srcs, s)
	}
	cfg := c20Sched(t, 40*(n+nb+2))
	got := c.run(x, cfg, false, false)
	if v := c16Check(x, c, got); v != nil {
		return v
	}
	// Results must not differ from the same fetches run one at a time.
	seq := c.run(x, simrt.Config{Strategy: simrt.StratRunToBlock}, false, true)
	if (got.err == nil) != (seq.err == nil) || !bytes.Equal(got.out, seq.out) {
		return violf("fetch-differs-from-sequential", "concurrent fetch of %v gives err=%v and %d report bytes, one at a time err=%v and %d bytes", c.describe(), got.err, len(got.out), seq.err, len(seq.out))
	}
	if got.res.Switches > 0 {
		x.nontriv[fmt.Sprintf("fetch:%v:%016x", c.describe(), got.res.SwitchSig)] = true
	}
	x.sample = map[string]interface{}{"mode": "fetch", "sources": c.describe()}
	return nil
}

// ---- scenario 6: several addresses symbolized concurrently through one shared ObjFile ----

// a2lSession scripts `addr2line -aif -e file`: for every input line (a hex
// address) it prints the address and then (function, file:line) pairs, inlined
// frames first. A pure function of its input.
type a2lSession struct{ die uint64 }

func toolFrames(addr uint64) []plugin.Frame {
	n := 1 + int(addr%3)
	fr := make([]plugin.Frame, n)
	for i := range fr {
		fr[i] = plugin.Frame{Func: fmt.Sprintf("fn_%x_%d", addr, i), File: fmt.Sprintf("/src/f%d.c", (addr+uint64(i))%4), Line: int(10 + (addr+uint64(i))%80)}
	}
	return fr
}

func (s a2lSession) Line(in string) []string {
	v, err := strconv.ParseUint(strings.TrimSpace(in), 16, 64)
	if err != nil {
		return []string{"0x0", "??", "??:0"}
	}
	if s.die != 0 && v == s.die {
		return []string{simexec.Die}
	}
	out := []string{fmt.Sprintf("0x%016x", v)}
	if v == ^uint64(0) {
		return append(out, "??", "??:0")
	}
	for _, f := range toolFrames(v) {
		out = append(out, f.Func, fmt.Sprintf("%s:%d", f.File, f.Line))
	}
	return out
}

// llvmSession scripts `llvm-symbolizer --inlining --output-style=JSON`.
type llvmSession struct{ die uint64 }

func (s llvmSession) Line(in string) []string {
	f := strings.Fields(in)
	if len(f) < 3 {
		return []string{"{}"}
	}
	v, _ := strconv.ParseUint(strings.TrimPrefix(f[len(f)-1], "0x"), 16, 64)
	if s.die != 0 && v == s.die {
		return []string{simexec.Die}
	}
	type sym struct {
		Line         int    `json:"Line"`
		Column       int    `json:"Column"`
		FunctionName string `json:"FunctionName"`
		FileName     string `json:"FileName"`
		StartLine    int    `json:"StartLine"`
	}
	var doc struct {
		Address    string `json:"Address"`
		ModuleName string `json:"ModuleName"`
		Symbol     []sym  `json:"Symbol"`
	}
	doc.Address, doc.ModuleName = f[len(f)-1], f[1]
	for _, fr := range toolFrames(v) {
		doc.Symbol = append(doc.Symbol, sym{Line: fr.Line, FunctionName: fr.Func, FileName: fr.File})
	}
	b, _ := json.Marshal(doc)
	return []string{string(b)}
}

func framesString(fr []plugin.Frame, err error) string {
	if err != nil {
		return "error: " + err.Error()
	}
	var sb strings.Builder
	for _, f := range fr {
		fmt.Fprintf(&sb, "%s@%s:%d;", f.Func, f.File, f.Line)
	}
	return sb.String()
}

func c20Tools(x *xctx) *violation {
	t := x.t
	K := simrt.KGen
	freshProcess(true)
	useLLVM := t.Bool(K, 40)
	ntasks := 2 + t.Choose(K, 3)
	if c20Enum {
		ntasks = 2
	}
	addrs := make([][]uint64, ntasks)
	for i := range addrs {
		n := 1 + t.Choose(K, 3)
		for j := 0; j < n; j++ {
			addrs[i] = append(addrs[i], uint64(0x1000+0x10*t.Choose(K, 64)))
		}
	}
	// Fault mode: the tool that answers the lookups crashes on one of the
	// requested addresses, while other lookups are in flight.
	var dieAt uint64
	if !c20Enum && t.Bool(K, 30) {
		i := t.Choose(K, ntasks)
		dieAt = addrs[i][t.Choose(K, len(addrs[i]))]
	}
	a2lDie, llvmDie := dieAt, uint64(0)
	if useLLVM {
		a2lDie, llvmDie = 0, dieAt
		if dieAt != 0 && t.Bool(K, 30) {
			a2lDie = dieAt // a fallback tool, should there be one, crashes too
		}
	}
	simexec.Register("addr2line", &simexec.Program{Session: func([]string) simexec.LineSession { return a2lSession{a2lDie} }})
	simexec.Register("nm", &simexec.Program{Batch: func(args []string, stdin []byte) ([]byte, []byte, int) { return nil, nil, 1 }})
	tools := "addr2line:/sim/testdata/bin"
	if useLLVM {
		simexec.Register("llvm-symbolizer", &simexec.Program{Session: func([]string) simexec.LineSession { return llvmSession{llvmDie} }})
		tools += ",llvm-symbolizer:/sim/testdata/bin"
	}
	toggler := t.Bool(K, 40)
	var finalState, lazyState string
	run := func(cfg simrt.Config, concurrent bool) ([][]string, simrt.Result, error) {
		got := make([][]string, ntasks)
		var openErr error
		cfg.Tape = t
		res := simrt.Exec(cfg, func() {
			bu := &binutils.Binutils{}
			bu.SetTools(tools)
			f, err := bu.Open("/bin/not-on-disk", 0x1000, 0x9000, 0, "")
			if err != nil {
				openErr = err
				return
			}
			work := func(i int) {
				got[i] = make([]string, len(addrs[i]))
				for j, a := range addrs[i] {
					got[i][j] = framesString(f.SourceLine(a))
					if _, err := f.ObjAddr(a); err != nil {
						got[i][j] += " objaddr: " + err.Error()
					}
				}
			}
			if !concurrent {
				for i := range addrs {
					work(i)
				}
			} else {
				var hs []*simrt.Handle
				for i := range addrs {
					i := i
					hs = append(hs, simrt.GoJoinable(fmt.Sprintf("sym%d", i), func() { work(i) }))
				}
				if toggler {
					hs = append(hs, simrt.GoJoinable("tools", func() {
						bu.SetFastSymbolization(true)
						_ = bu.String()
						bu.SetFastSymbolization(false)
					}))
				}
				for _, h := range hs {
					simrt.Join(h)
				}
				// Two independent settings changed concurrently: whatever the
				// order, both must have taken effect once both calls returned.
				h1 := simrt.GoJoinable("settools", func() { bu.SetTools(tools + ",nm:/sim/testdata/nmdir") })
				h2 := simrt.GoJoinable("setfast", func() { bu.SetFastSymbolization(true) })
				simrt.Join(h1)
				simrt.Join(h2)
				finalState = bu.String()
				// A Binutils nobody has configured yet: its first user looks the
				// tools up lazily (PATH search, `objdump --version`) while another
				// caller sets an option. The option must survive.
				fresh := &binutils.Binutils{}
				r1 := simrt.GoJoinable("firstuse", func() { _ = fresh.String() })
				r2 := simrt.GoJoinable("setfast2", func() { fresh.SetFastSymbolization(true) })
				simrt.Join(r1)
				simrt.Join(r2)
				lazyState = fresh.String()
			}
			f.Close()
		})
		x.note(res)
		return got, res, openErr
	}
	want, rres, err := run(simrt.Config{Strategy: simrt.StratRunToBlock}, false)
	if err != nil {
		return violf("tools-setup", "Binutils.Open failed in the scripted environment: %v", err)
	}
	if v := resultViolation(rres); v != nil {
		v.Class = "seq-" + v.Class
		return v
	}
	// With a crashing tool a lookup may fail (which ones depends on what was
	// asked before the crash), but an answer, if given, is the right one.
	rightOrError := func(a uint64, s string) bool {
		return s == framesString(toolFrames(a), nil) || strings.HasPrefix(s, "error: ")
	}
	for i := range want {
		for j, s := range want[i] {
			if dieAt != 0 {
				if !rightOrError(addrs[i][j], s) {
					return violf("seq-tools-wrong-answer", "sequential SourceLine(%#x) with the tool crashing at %#x gave %q: neither the tool's answer nor an error", addrs[i][j], dieAt, s)
				}
				continue
			}
			exp := framesString(toolFrames(addrs[i][j]), nil)
			if s != exp {
				return violf("tools-setup", "sequential SourceLine(%#x) gave %q, the scripted tool answers %q", addrs[i][j], s, exp)
			}
		}
	}
	freshProcess(false)
	got, res, _ := run(c20Sched(t, 300), true)
	if v := resultViolation(res); v != nil {
		return v
	}
	for i := range want {
		for j := range want[i] {
			if dieAt != 0 {
				if !rightOrError(addrs[i][j], got[i][j]) {
					return violf("tools-wrong-answer", "concurrent SourceLine(%#x) with the tool crashing at %#x gave %q: neither the tool's answer nor an error", addrs[i][j], dieAt, got[i][j])
				}
				continue
			}
			if got[i][j] != want[i][j] {
				return violf("tools-crosstalk", "concurrent SourceLine(%#x) returned %q, sequentially it returns %q (requests and responses of different callers interleaved on the tool's pipes)", addrs[i][j], got[i][j], want[i][j])
			}
		}
	}
	if !strings.Contains(finalState, "fast=true") || !strings.Contains(finalState, `nm="/sim/testdata/nmdir/nm"`) {
		return violf("tools-config-lost", "after concurrent SetTools(...nm:/sim/testdata/nmdir) and SetFastSymbolization(true) had both returned, the configuration is %s: one of the two updates was lost", finalState)
	}
	if !strings.Contains(lazyState, "fast=true") {
		return violf("tools-config-lost", "SetFastSymbolization(true) on a Binutils whose first (lazy) tool lookup was in progress in another task had returned, yet the configuration is %s", lazyState)
	}
	if dieAt != 0 {
		x.fault("exec:tool-crashes-mid-session", 1)
	}
	if res.Switches > 0 {
		x.probe("switch_during_tool_access")
		x.nontriv[fmt.Sprintf("tools:%v:%v:%016x", useLLVM, addrs, res.SwitchSig)] = true
	}
	x.sample = map[string]interface{}{"mode": "tools", "llvm_symbolizer": useLLVM, "addresses": addrs, "switches": res.Switches}
	return nil
}
