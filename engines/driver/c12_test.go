//go:build verif

package driver

// C12: symbolization only adds names; measurements are untouched.
//
// Sequential code, so there is no interleaving to choose; what the simulator
// chooses is what the outside world answers, call by call. The real
// symbolizer.Symbolizer runs against a scripted ObjTool and a scripted
// symbolz endpoint behind the plug-in seams. The fault-free execution is
// recorded first (N plug-in calls); then each call k is failed in turn with
// every failure kind that applies to it (exhaustive single-fault coverage
// per profile), followed by seeded plans with 2-4 faults. The oracle is a
// frame condition on a deep snapshot taken before.

import (
	"fmt"
	"io"
	"net/http"
	"regexp"
	"sort"
	"strings"

	"github.com/google/pprof/internal/plugin"
	"github.com/google/pprof/internal/symbolizer"
	"github.com/google/pprof/internal/verifsim/simrt"
	"github.com/google/pprof/profile"
)

func init() {
	register(&engine{name: "c12", prop: "C12", run: runC12})
}

var c12Names = []string{"main", "foo<int>", "<unknown>", "ns::f(int)", "_Z3fooi", "operator<<", "a.b.C", "(anonymous namespace)::x", "std::vector<int>::push_back(int const&)", "[clone .cold]", "java.lang.Object.<init>", "pkg.(*T[...]).M", "_ZN3foo3barEv", "<lambda(int)>", "f()", "<unknown> (inlined)", "(anonymous namespace) <lambda>", " <unknown>", "<unknown> ", "f (int)", "ns::g<T> [clone]"}

// plug-in call kinds
const (
	pcOpen = iota
	pcSourceLine
	pcPost
)

var pcNames = [...]string{"ObjTool.Open", "ObjFile.SourceLine", "symbolz POST"}

// failure kinds per call kind
var c12Fails = map[int][]string{
	pcOpen:       {"error", "wrong-build-id", "empty-build-id"},
	pcSourceLine: {"error", "empty", "empty-names", "zero-lines", "many-frames", "blank-frame", "all-blank"},
	pcPost:       {"transport-error", "status-500", "status-500-pprof", "malformed", "other-addresses", "truncated", "partial", "non-hex", "empty-body", "late-bad-address", "late-garbage"},
}

type c12fault struct {
	at   int
	kind string
}

type c12world struct {
	extraNames []string // names taken from the tree's literals for this case
	seed       uint64
	faults     []c12fault
	calls      []int // kind per call, in order
	fired      map[string]int
}

func (w *c12world) next(kind int) string {
	k := len(w.calls)
	w.calls = append(w.calls, kind)
	simrt.Point("plugin", int64(k))
	for _, f := range w.faults {
		if f.at != k {
			continue
		}
		// With several faults the call sequence may differ from the recorded
		// one; a fault fires only if it applies to the call it lands on.
		for _, ok := range c12Fails[kind] {
			if ok == f.kind {
				w.fired[pcNames[kind]+":"+f.kind]++
				return f.kind
			}
		}
	}
	return ""
}

func (w *c12world) h(a uint64) uint64 {
	z := a*0x9E3779B97F4A7C15 + w.seed
	z = (z ^ (z >> 30)) * 0xBF58476D1CE4E5B9
	return z ^ (z >> 27)
}

func (w *c12world) Open(file string, start, limit, offset uint64, relocationSymbol string) (plugin.ObjFile, error) {
	f := w.next(pcOpen)
	if f == "error" || strings.Contains(file, "missing") {
		return nil, fmt.Errorf("open %s: no such file", file)
	}
	of := &c12file{w: w, name: file, buildID: "match"}
	switch f {
	case "wrong-build-id":
		of.buildID = "deadbeef"
	case "empty-build-id":
		of.buildID = ""
	}
	return of, nil
}

func (w *c12world) Disasm(file string, start, end uint64, intelSyntax bool) ([]plugin.Inst, error) {
	return nil, fmt.Errorf("no disassembler")
}

type c12file struct {
	w       *c12world
	name    string
	buildID string
}

func (f *c12file) Name() string                        { return f.name }
func (f *c12file) ObjAddr(addr uint64) (uint64, error) { return addr, nil }
func (f *c12file) BuildID() string {
	if f.buildID == "match" {
		return "" // unknown build id: accepted for any mapping
	}
	return f.buildID
}
func (f *c12file) Symbols(r *regexp.Regexp, addr uint64) ([]*plugin.Sym, error) { return nil, nil }
func (f *c12file) Close() error                                                 { return nil }
func (f *c12file) SourceLine(addr uint64) ([]plugin.Frame, error) {
	fk := f.w.next(pcSourceLine)
	switch fk {
	case "error":
		return nil, fmt.Errorf("addr2line: cannot read %#x", addr)
	case "empty":
		return nil, nil
	}
	h := f.w.h(addr)
	n := 1 + int(h%3)
	if fk == "many-frames" {
		n = 6
	}
	if h%11 == 0 && fk == "" {
		return nil, nil // address not covered by debug info
	}
	frames := make([]plugin.Frame, n)
	for i := range frames {
		hh := f.w.h(addr + uint64(i)*977)
		frames[i] = plugin.Frame{Func: c12Names[hh%uint64(len(c12Names))], File: fmt.Sprintf("/src/f%d.cc", hh%5), Line: int(1 + hh%90), Column: int(hh % 4), StartLine: int(1 + hh%50)}
		if len(f.w.extraNames) > 0 && hh%5 == 0 {
			frames[i].Func = f.w.extraNames[(hh/5)%uint64(len(f.w.extraNames))]
		}
		switch fk {
		case "empty-names":
			frames[i].Func, frames[i].File = "", ""
		case "zero-lines":
			frames[i].Line, frames[i].StartLine = 0, 0
		case "all-blank":
			frames[i] = plugin.Frame{}
		}
	}
	if fk == "blank-frame" {
		// an unresolved inlined frame in the middle of the stack: nothing known about it
		frames = append(frames[:1], append([]plugin.Frame{{}}, frames[1:]...)...)
	}
	return frames, nil
}

type strBody struct{ *strings.Reader }

func (strBody) Close() error { return nil }

func (w *c12world) RoundTrip(req *http.Request) (*http.Response, error) {
	fk := w.next(pcPost)
	body, _ := io.ReadAll(req.Body)
	if fk == "transport-error" || strings.Contains(req.URL.Host, "down") {
		return nil, fmt.Errorf("dial tcp %s: connection refused", req.URL.Host)
	}
	resp := &http.Response{Status: "200 OK", StatusCode: 200, Proto: "HTTP/1.1", ProtoMajor: 1, ProtoMinor: 1, Header: http.Header{}, Request: req}
	var sb strings.Builder
	addrs := strings.Split(string(body), "+")
	fmt.Fprintf(&sb, "num_symbols: %d\n", len(addrs))
	for i, a := range addrs {
		var v uint64
		fmt.Sscanf(a, "0x%x", &v)
		name := c12Names[w.h(v)%uint64(len(c12Names))]
		switch fk {
		case "malformed":
			fmt.Fprintf(&sb, "%s\n", name)
		case "other-addresses":
			fmt.Fprintf(&sb, "%#x %s\n", v+0x10, name)
			fmt.Fprintf(&sb, "%#x %s\n", v^0xfff, name)
		case "partial":
			if i%2 == 0 {
				fmt.Fprintf(&sb, "%#x %s\n", v, name)
			}
		case "non-hex":
			fmt.Fprintf(&sb, "0xZZ%x %s\n", v, name)
			fmt.Fprintf(&sb, "0x%x0000000000000000 %s\n", v, name)
		default:
			if w.h(v)%7 != 0 {
				fmt.Fprintf(&sb, "%#x %s\n", v, name)
			}
		}
	}
	out := sb.String()
	switch fk {
	case "late-bad-address":
		// a good answer, then an address that does not fit in 64 bits
		out += fmt.Sprintf("0x1%016x %s\n", w.h(7), c12Names[0])
	case "late-garbage":
		out += "0xnothex main\n\x00\xff garbage\n"
	case "status-500":
		resp.Status, resp.StatusCode = "500 Internal Server Error", 500
	case "status-500-pprof":
		resp.Status, resp.StatusCode = "500 Internal Server Error", 500
		resp.Header.Set("X-Go-Pprof", "1")
		resp.Header.Set("Content-Type", "text/plain")
		out = "symbol lookup disabled"
	case "truncated":
		out = out[:len(out)/2]
	case "empty-body":
		out = ""
	}
	resp.Body = strBody{strings.NewReader(out)}
	return resp, nil
}

// ---- profile generation ----

type c12case struct {
	extraNames []string
	build      func() *profile.Profile
	mode       string
	sources    plugin.MappingSources
	desc       string
}

func genC12Case(t *simrt.Tape) *c12case {
	K := simrt.KGen
	// Draw everything into plain data first so that the profile can be rebuilt
	// identically for every fault plan.
	type mapT struct {
		file, build          string
		hasF, hasFile, hasLn bool
		start                uint64
	}
	nm := 1 + t.Choose(K, 3)
	maps := make([]mapT, nm)
	files := []string{"/bin/prog", "/lib/libx.so", "", "[vdso]", "http://host1/debug/pprof/profile", "/bin/missing", "//anon"}
	for i := range maps {
		maps[i] = mapT{file: files[t.Choose(K, len(files))], start: uint64(0x400000 + i*0x200000)}
		if i == 0 && t.Bool(K, 70) {
			maps[i].file = "/bin/prog"
		}
		if t.Bool(K, 40) {
			maps[i].build = []string{"abc123", "ff"}[t.Choose(K, 2)]
		}
		if t.Bool(K, 30) {
			maps[i].hasF = true
			maps[i].hasFile = t.Bool(K, 50)
			maps[i].hasLn = t.Bool(K, 50)
		}
	}
	// existing functions with sparse ids
	nf := t.Choose(K, 4)
	fids := make([]uint64, nf)
	fnames := make([]int, nf)
	fsys := make([]int, nf) // how the system name relates to the name, see build
	idBase := []uint64{1, 2, 5, 100, 0}[t.Choose(K, 5)]
	nextFID := idBase
	if idBase == 0 {
		// ids at the very top of the range: the largest is 2^64-1 or just below
		nextFID = ^uint64(0) - uint64(3*nf) - uint64(t.Choose(K, 2))
	}
	for i := range fids {
		fids[i] = nextFID
		step := uint64(1 + t.Choose(K, 3)) // strictly increasing, sparse
		if idBase == 0 && i == nf-2 && t.Bool(K, 60) {
			step = ^uint64(0) - nextFID // the last id is the largest there is
		}
		nextFID += step
		fnames[i] = t.Choose(K, len(c12Names))
		if t.Bool(K, 35) {
			fsys[i] = 1 + t.Choose(K, 5)
		}
	}
	nl := 1 + t.Choose(K, 6)
	type locT struct {
		m     int
		addr  uint64
		funcs []int
	}
	locs := make([]locT, nl)
	for i := range locs {
		m := t.Choose(K, nm)
		noMapping := t.Bool(K, 12)
		var addr uint64
		switch t.Choose(K, 8) {
		case 0:
			addr = maps[m].start
		case 1:
			addr = maps[m].start + 0x100000 - 1
		case 2:
			addr = 0
		case 3, 4:
			// The same address in several mappings (profiles of two processes
			// merged, overlapping or fake mappings): answers are keyed by address.
			addr = 0x401000 + uint64(0x10*t.Choose(K, 2))
		default:
			addr = maps[m].start + uint64(0x100+0x10*i)
		}
		locs[i] = locT{m: m, addr: addr}
		if noMapping {
			locs[i].m = -1 // a location outside every mapping
		}
		if nf > 0 && (maps[m].hasF || noMapping || t.Bool(K, 25)) {
			n := 1 + t.Choose(K, 2)
			for j := 0; j < n; j++ {
				locs[i].funcs = append(locs[i].funcs, t.Choose(K, nf))
			}
		}
	}
	ns := 1 + t.Choose(K, 4)
	type smpT struct {
		locs []int
		val  int64
	}
	smps := make([]smpT, ns)
	for i := range smps {
		d := 1 + t.Choose(K, 3)
		for j := 0; j < d; j++ {
			smps[i].locs = append(smps[i].locs, t.Choose(K, nl))
		}
		smps[i].val = int64(1+t.Choose(K, 50)) * []int64{1, -1}[t.Choose(K, 2)]
	}
	build := func() *profile.Profile {
		p := &profile.Profile{SampleType: []*profile.ValueType{{Type: "samples", Unit: "count"}}, PeriodType: &profile.ValueType{Type: "cpu", Unit: "ns"}, Period: 1}
		for i, m := range maps {
			p.Mapping = append(p.Mapping, &profile.Mapping{ID: uint64(i + 1), Start: m.start, Limit: m.start + 0x100000, Offset: uint64(i) * 0x1000, File: m.file, BuildID: m.build, HasFunctions: m.hasF, HasFilenames: m.hasFile, HasLineNumbers: m.hasLn})
		}
		for i := range fids {
			n := c12Names[fnames[i]]
			sys := n
			switch fsys[i] {
			case 1: // demangled already, no system name kept
				sys = ""
			case 2, 3: // demangled already; several functions may share a mangled name
				sys = []string{"_Z3fooi", "_ZN3foo3barEv"}[fsys[i]-2]
			case 4: // nothing known about the function
				n, sys = "", ""
			case 5: // only the mangled name is known
				n, sys = "", "_Z3fooi"
			}
			p.Function = append(p.Function, &profile.Function{ID: fids[i], Name: n, SystemName: sys, Filename: "/src/old.cc", StartLine: 3})
		}
		for i, l := range locs {
			loc := &profile.Location{ID: uint64(i + 1), Address: l.addr}
			if l.m >= 0 {
				loc.Mapping = p.Mapping[l.m]
			}
			for _, fi := range l.funcs {
				loc.Line = append(loc.Line, profile.Line{Function: p.Function[fi], Line: int64(7 + fi), Column: 2})
			}
			p.Location = append(p.Location, loc)
		}
		for _, s := range smps {
			smp := &profile.Sample{Value: []int64{s.val}, Label: map[string][]string{"k": {"v"}}, NumLabel: map[string][]int64{"bytes": {64}}, NumUnit: map[string][]string{"bytes": {"bytes"}}}
			for _, li := range s.locs {
				smp.Location = append(smp.Location, p.Location[li])
			}
			p.Sample = append(p.Sample, smp)
		}
		return p
	}
	modes := []string{"", "local", "fastlocal", "remote", "force", "local:force", "remote:force", "demangle=full", "demangle=none", "demangle=templates", "demangle=default", "none", "local:demangle=templates", "remote:demangle=full", "bogus", "fastlocal:force:demangle=none"}
	c := &c12case{build: build, mode: modes[t.Choose(K, len(modes))], sources: plugin.MappingSources{}}
	for i, n := 0, t.Choose(K, 4); i < n; i++ {
		c.extraNames = append(c.extraNames, dictStr(t, "main"))
	}
	srcs := []string{"http://host1/debug/pprof/profile", "http://host2/pprof/heap", "http://host3/x/y", "not a url", "http://down/debug/pprof/heap"}
	for _, m := range maps {
		if !t.Bool(K, 60) {
			continue
		}
		key := m.file
		if m.build != "" && t.Bool(K, 50) {
			key = m.build
		}
		n := 1 + t.Choose(K, 2)
		for j := 0; j < n; j++ {
			delta := []uint64{0, 0, 0x1000, ^uint64(0) - 0x10, 0x7fffffffffffffff}[t.Choose(K, 5)]
			c.sources[key] = append(c.sources[key], struct {
				Source string
				Start  uint64
			}{srcs[t.Choose(K, len(srcs))], m.start + delta})
		}
	}
	c.desc = fmt.Sprintf("mode=%q mappings=%v funcIDs=%v locs=%d sources=%v", c.mode, maps, fids, nl, c.sources)
	return c
}

// ---- snapshot and frame condition ----

type c12snap struct {
	samples  []string
	locs     []string
	maps     []string
	lines    map[uint64]string // location id -> line table, for protected mappings
	protect  map[uint64]bool   // mapping ids that already carried symbols
	funcs    []*profile.Function
	funcName []string
	funcSys  []string
}

func lineTable(l *profile.Location) string {
	var sb strings.Builder
	for _, ln := range l.Line {
		if ln.Function == nil {
			sb.WriteString("<nil>;")
			continue
		}
		fmt.Fprintf(&sb, "%s|%s|%d|%d|%d;", ln.Function.SystemName, ln.Function.Filename, ln.Function.StartLine, ln.Line, ln.Column)
	}
	return sb.String()
}

func labelsString(s *profile.Sample) string {
	var parts []string
	for k, v := range s.Label {
		parts = append(parts, fmt.Sprintf("%s=%v", k, v))
	}
	for k, v := range s.NumLabel {
		parts = append(parts, fmt.Sprintf("%s=%v%v", k, v, s.NumUnit[k]))
	}
	sort.Strings(parts)
	return strings.Join(parts, ",")
}

func takeC12Snap(p *profile.Profile, force bool) *c12snap {
	s := &c12snap{lines: map[uint64]string{}, protect: map[uint64]bool{}}
	for _, smp := range p.Sample {
		var ids []string
		for _, l := range smp.Location {
			ids = append(ids, fmt.Sprintf("%d@%#x", l.ID, l.Address))
		}
		s.samples = append(s.samples, fmt.Sprintf("%v %s [%s]", smp.Value, labelsString(smp), strings.Join(ids, " ")))
	}
	for _, m := range p.Mapping {
		s.maps = append(s.maps, fmt.Sprintf("%d:%#x-%#x+%#x", m.ID, m.Start, m.Limit, m.Offset))
		if m.HasFunctions && !force {
			s.protect[m.ID] = true
		}
	}
	for _, l := range p.Location {
		mid := uint64(0)
		if l.Mapping != nil {
			mid = l.Mapping.ID
		}
		s.locs = append(s.locs, fmt.Sprintf("%d@%#x m%d", l.ID, l.Address, mid))
		if s.protect[mid] {
			s.lines[l.ID] = lineTable(l)
		}
	}
	for _, f := range p.Function {
		s.funcs = append(s.funcs, f)
		s.funcName = append(s.funcName, f.Name)
		s.funcSys = append(s.funcSys, f.SystemName)
	}
	return s
}

func (s *c12snap) check(p *profile.Profile, force bool) *violation {
	after := takeC12Snap(p, force)
	if strings.Join(after.samples, "\n") != strings.Join(s.samples, "\n") {
		return violf("samples-changed", "samples changed:\n%s\n--- was ---\n%s", strings.Join(after.samples, "\n"), strings.Join(s.samples, "\n"))
	}
	if strings.Join(after.locs, "\n") != strings.Join(s.locs, "\n") {
		return violf("locations-changed", "location addresses or mappings changed:\n%v\n--- was ---\n%v", after.locs, s.locs)
	}
	if strings.Join(after.maps, "\n") != strings.Join(s.maps, "\n") {
		return violf("mappings-changed", "mapping ranges changed: %v was %v", after.maps, s.maps)
	}
	for _, l := range p.Location {
		if want, ok := s.lines[l.ID]; ok {
			if got := lineTable(l); got != want {
				return violf("symbolized-mapping-touched", "location %d of a mapping that already carried symbols (no force) changed its line table from %q to %q", l.ID, want, got)
			}
		}
	}
	for i, f := range s.funcs {
		if s.funcName[i] != "" && f.Name == "" {
			return violf("name-emptied", "function %d: name %q (system name %q) replaced by the empty string", f.ID, s.funcName[i], f.SystemName)
		}
		if !force && s.funcName[i] != "" && s.funcName[i] != s.funcSys[i] && f.Name != s.funcName[i] {
			// a name that is not the system name is a demangled one: without
			// force nothing re-derives it
			return violf("demangled-name-changed", "function %d: name %q (system name %q) became %q although no force was requested", f.ID, s.funcName[i], s.funcSys[i], f.Name)
		}
	}
	ids := map[uint64]bool{}
	for _, f := range p.Function {
		if f.ID == 0 || ids[f.ID] {
			return violf("invalid-after-symbolize", "function id %d is zero or used twice after symbolization", f.ID)
		}
		ids[f.ID] = true
	}
	for _, l := range p.Location {
		for _, ln := range l.Line {
			if ln.Function != nil && !ids[ln.Function.ID] {
				return violf("invalid-after-symbolize", "location %d references function %d which is not in the profile", l.ID, ln.Function.ID)
			}
		}
	}
	if err := p.CheckValid(); err != nil {
		return violf("invalid-after-symbolize", "profile invalid after symbolization: %v", err)
	}
	return nil
}

func c12Run(x *xctx, c *c12case, faults []c12fault) (*c12world, *violation) {
	p := c.build()
	force := strings.Contains(strings.ToLower(c.mode), "force") || strings.Contains(c.mode, "demangle=full") || strings.Contains(c.mode, "demangle=none") || strings.Contains(c.mode, "demangle=templates")
	if err := p.CheckValid(); err != nil {
		panic("generator produced an invalid profile: " + err.Error())
	}
	snap := takeC12Snap(p, force)
	w := &c12world{seed: x.seed, faults: faults, fired: map[string]int{}, extraNames: c.extraNames}
	ui := &simUI{}
	sym := &symbolizer.Symbolizer{Obj: w, UI: ui, Transport: w}
	var err error
	var panicked interface{}
	res := simrt.Exec(simrt.Config{Tape: x.t, Strategy: simrt.StratRunToBlock}, func() {
		defer func() {
			if r := recover(); r != nil && !simrt.IsAbort(r) {
				panicked = r
			}
		}()
		err = sym.Symbolize(c.mode, c.sources, p)
	})
	x.note(res)
	for k, n := range w.fired {
		x.fault(k, int64(n))
	}
	if panicked != nil {
		return w, violf("panic", "Symbolize panicked: %v", panicked)
	}
	if v := resultViolation(res); v != nil {
		return w, v
	}
	_ = err // an error is allowed; the frame condition must hold regardless
	if err != nil {
		x.probe("symbolize_returned_error")
	}
	return w, snap.check(p, force)
}

func runC12(x *xctx) *violation {
	t := x.t
	freshProcess(true)
	c := genC12Case(t)
	x.tr("case: %s", c.desc)
	w0, v := c12Run(x, c, nil)
	if v != nil {
		x.tr("fault-free execution, %d plug-in calls", len(w0.calls))
		return v
	}
	n := len(w0.calls)
	plans := 0
	// exhaustive single faults
	for k := 0; k < n; k++ {
		for _, kind := range c12Fails[w0.calls[k]] {
			plans++
			if _, v := c12Run(x, c, []c12fault{{k, kind}}); v != nil {
				x.tr("single fault: call %d (%s) -> %s", k, pcNames[w0.calls[k]], kind)
				v.Detail = fmt.Sprintf("with call %d (%s) answering %q: %s", k, pcNames[w0.calls[k]], kind, v.Detail)
				return v
			}
		}
	}
	// seeded multi-fault plans
	if n >= 2 {
		m := 3
		if x.tier == "thorough" {
			m = 12
		}
		for i := 0; i < m; i++ {
			nfl := 2 + t.Choose(simrt.KFault, 3)
			var fl []c12fault
			for j := 0; j < nfl; j++ {
				k := t.Choose(simrt.KFault, n)
				kinds := c12Fails[w0.calls[k]]
				fl = append(fl, c12fault{k, kinds[t.Choose(simrt.KFault, len(kinds))]})
			}
			plans++
			if _, v := c12Run(x, c, fl); v != nil {
				x.tr("fault plan: %v", fl)
				v.Detail = fmt.Sprintf("with faults %v: %s", fl, v.Detail)
				return v
			}
		}
	}
	x.stats["fault_plans"] += int64(plans)
	x.stats["plugin_calls"] += int64(n)
	if n > 0 {
		x.nontriv[c.desc] = true
		x.probe("profile_with_plugin_calls")
	}
	x.states[fmt.Sprintf("%s/%d", c.mode, n)] = true
	x.sample = map[string]interface{}{"mode": "single-fault-enumeration", "case": c.desc, "plugin_calls": n, "fault_plans": plans}
	return nil
}
