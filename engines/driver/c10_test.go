//go:build verif

package driver

// C10: each interactive command or web request sees the pristine profile.
//
// The property is a refinement statement: the session must behave like a
// function out = F(profile, option assignments so far, command). The
// executable reference for step i of a history is therefore a FRESH session
// (simulated process boundary, same profile bytes) that executes only the
// option assignments preceding step i and then step i. No model of option
// semantics is needed, so none can be wrong.

import (
	"bytes"
	"fmt"
	"net/url"
	"sort"
	"strings"

	"github.com/google/pprof/internal/verifsim/simos"
	"github.com/google/pprof/internal/verifsim/simrt"
)

func init() {
	register(&engine{name: "c10", prop: "C10", run: runC10})
}

type c10step struct {
	line   string
	assign bool
	mut    bool // a report that mutates the profile it is handed (filters, pruning, aggregation, tag removal, label frames)
	file   string
}

var c10Regexps = []string{"main", "foo", "bar|baz", "runtime", "lib", "^main\\.run$", "zzz", "T", "malloc", "\\.go", "main(", "[a", "*x"}
var c10TagRx = []string{"v1", "tenant", "k=v1", "k2", "bytes", "1kb:", "n=16:4096", "a b", "zzz", "tenant=v1", "k2=v1", "v2", "k=v2", "tenant=v2", "v1$", "k=v1$"}

// tagshow / taghide take plain regexps over tag names; the last ones do not compile.
var c10WebTagRx = []string{"tenant", "k", "k2", "bytes|n", "zzz", "(", "[k"}

func genC10Assign(t *simrt.Tape, sampleTypes []string) string {
	K := simrt.KGen
	if len(c10ThemeAssigns) > 0 {
		return genC10AssignCase(t, sampleTypes, c10ThemeAssigns[t.Choose(K, len(c10ThemeAssigns))])
	}
	if t.Bool(K, 6) {
		// any option the tree defines, with a value of its type
		return treeAssign(t, c10Regexps)
	}
	if t.Bool(K, 8) {
		return []string{"source_path=/home/me/src", "source_path=/other/place/lib", "source_path=", "trim_path=/src", "trim_path=", "source_path=/home/me/src:/other/place/lib", "granularity=files", "files", "lines"}[t.Choose(K, 9)]
	}
	if t.Bool(K, 15) {
		return []string{"relative_percentages", "tagroot=k", "tagroot=tenant", "tagleaf=k", "divide_by=0", "divide_by=1", "tagshow=(", "taghide=[", "tagshow=", "relative_percentages=false"}[t.Choose(K, 10)]
	}
	return genC10AssignCase(t, sampleTypes, t.Choose(K, 30))
}

// c10ThemeCmds / c10ThemeAssigns, when set, restrict a history to a few kinds
// of commands and options (swarm style): interactions of one particular
// option with one particular report come up far more often than in a
// history drawn from everything.
var c10ThemeCmds, c10ThemeAssigns []int

func genC10AssignCase(t *simrt.Tape, sampleTypes []string, k int) string {
	K := simrt.KGen
	rx := func() string { return c10Regexps[t.Choose(K, len(c10Regexps))] }
	trx := func() string { return c10TagRx[t.Choose(K, len(c10TagRx))] }
	switch k {
	case 0:
		return "focus=" + rx()
	case 1:
		return "ignore=" + rx()
	case 2:
		return "hide=" + rx()
	case 3:
		return "show=" + rx()
	case 4:
		return "show_from=" + rx()
	case 5:
		return "tagfocus=" + trx()
	case 6:
		return "tagignore=" + trx()
	case 7:
		return "tagshow=" + trx()
	case 8:
		return "taghide=" + trx()
	case 9:
		return fmt.Sprintf("nodecount=%d", []int{0, 1, 2, 5, -1}[t.Choose(K, 5)])
	case 10:
		return "nodefraction=" + []string{"0", "0.1", "0.5", "0.005"}[t.Choose(K, 4)]
	case 11:
		return "edgefraction=" + []string{"0", "0.1", "0.001"}[t.Choose(K, 3)]
	case 12:
		return []string{"call_tree", "call_tree=false", "call_tree=true"}[t.Choose(K, 3)]
	case 13:
		return []string{"mean", "mean=false"}[t.Choose(K, 2)]
	case 14:
		return "sample_index=" + sampleTypes[t.Choose(K, len(sampleTypes))]
	case 15:
		return "unit=" + []string{"auto", "ms", "kb", "minimum", "seconds", "bogus"}[t.Choose(K, 6)]
	case 16:
		return []string{"functions", "files", "lines", "addresses", "filefunctions", "granularity=lines"}[t.Choose(K, 6)]
	case 17:
		return []string{"cum", "flat", "sort=cum"}[t.Choose(K, 3)]
	case 18:
		return []string{"noinlines", "noinlines=false"}[t.Choose(K, 2)]
	case 19:
		return "tagroot=" + []string{"k", "tenant", "k,tenant", "bytes", "nope"}[t.Choose(K, 5)]
	case 20:
		return "tagleaf=" + []string{"k", "tenant", "n", "nope"}[t.Choose(K, 4)]
	case 21:
		return "prune_from=" + rx()
	case 22:
		return []string{"trim=false", "trim=true", "trim"}[t.Choose(K, 3)]
	case 23:
		return []string{"drop_negative", "drop_negative=false"}[t.Choose(K, 2)]
	case 24:
		return []string{"relative_percentages", "relative_percentages=false"}[t.Choose(K, 2)]
	case 25:
		return "divide_by=" + []string{"2", "1", "0.5", "0"}[t.Choose(K, 4)]
	case 26:
		return []string{"compact_labels=false", "compact_labels", "showcolumns", "showcolumns=false"}[t.Choose(K, 4)]
	case 27:
		return ":"
	case 28:
		st := sampleTypes[t.Choose(K, len(sampleTypes))]
		return []string{st, "total_" + st, "mean_" + st}[t.Choose(K, 3)]
	}
	return []string{"focus=", "ignore=", "hide=", "show=", "tagfocus=", "tagshow=", "taghide=", "tagroot=", "tagleaf=", "prune_from=", "show_from="}[t.Choose(K, 11)]
}

func genC10Command(t *simrt.Tape, file string) (string, bool) {
	K := simrt.KGen
	rx := func() string { return c10Regexps[t.Choose(K, len(c10Regexps))] }
	var cmd string
	mut := false
	kc := t.Choose(K, 16)
	if len(c10ThemeCmds) > 0 {
		kc = c10ThemeCmds[t.Choose(K, len(c10ThemeCmds))]
	}
	switch kc {
	case 0, 1:
		cmd = "top"
	case 2:
		cmd = fmt.Sprintf("top %d", 1+t.Choose(K, 5))
	case 3:
		cmd = "tree"
	case 4:
		cmd = "peek " + rx()
	case 5:
		cmd = "tags"
	case 6:
		cmd = "traces"
	case 7:
		cmd = "raw"
	case 8:
		cmd = "proto"
	case 9:
		cmd = "topproto"
	case 10:
		cmd = "dot"
	case 11:
		cmd = "callgrind"
	case 12:
		cmd = "list " + rx()
		mut = true
	case 13:
		cmd = "text"
	case 14:
		cmd = "comments"
	case 15:
		cmd = "svg"
	}
	// per-command arguments: focus / ignore regexps, -cum, counts
	argPct := 35
	if len(c10ThemeCmds) > 0 {
		argPct = 12 // themed histories are about options meeting reports, not about arguments
	}
	if !strings.HasPrefix(cmd, "peek") && !strings.HasPrefix(cmd, "list") {
		if t.Bool(K, argPct) {
			if cmd == "tags" {
				cmd += " " + c10TagRx[t.Choose(K, len(c10TagRx))]
			} else {
				cmd += " " + rx()
			}
			mut = true
		}
		if t.Bool(K, argPct/2) {
			cmd += " -" + rx()
			mut = true
		}
		if t.Bool(K, 15) {
			cmd += " -cum"
		}
		if t.Bool(K, 10) {
			cmd += fmt.Sprintf(" %d", 1+t.Choose(K, 4))
		}
	}
	if t.Bool(K, 8) {
		// an output file that cannot be opened: the command fails late, after
		// its report has been rendered
		return cmd + " >/no/such/dir/" + file, mut
	}
	return cmd + " >" + file, mut
}

func c10ProfileTypes(nt int) []string {
	names := []string{"samples", "cpu", "alloc_space", "delay"}
	return names[:nt]
}

func runC10(x *xctx) *violation {
	t := x.t
	switch m := t.Choose(simrt.KCfg, 10); {
	case m < 5:
		return c10Interactive(x)
	case m < 7:
		return c10WebSequential(x)
	default:
		return c10WebConcurrent(x)
	}
}

func c10Interactive(x *xctx) *violation {
	t := x.t
	K := simrt.KGen
	nt := 1 + t.Choose(K, 3)
	p := genProfile(t, genOpts{types: nt, labels: true, inlines: true, negative: t.Bool(K, 30), maxFuncs: 7, maxSamples: 10})
	prof := encodeProfile(p)
	sts := c10ProfileTypes(nt)
	n := 2 + t.Choose(K, 10)
	if t.Bool(simrt.KCfg, 5) {
		n = 25 + t.Choose(K, 25) // state that builds up over many steps
	}
	if t.Bool(simrt.KCfg, 25) {
		for i, nc := 0, 1+t.Choose(K, 3); i < nc; i++ {
			c10ThemeCmds = append(c10ThemeCmds, t.Choose(K, 16))
		}
		for i, na := 0, 1+t.Choose(K, 3); i < na; i++ {
			c10ThemeAssigns = append(c10ThemeAssigns, t.Choose(K, 30))
		}
	}
	defer func() { c10ThemeCmds, c10ThemeAssigns = nil, nil }()
	var steps []c10step
	var outNames []string
	for i := 0; i < n; i++ {
		if t.Bool(K, 40) {
			steps = append(steps, c10step{line: genC10Assign(t, sts), assign: true})
		} else {
			if t.Bool(K, 12) {
				// listing commands: their transcript must not depend on history either
				steps = append(steps, c10step{line: []string{"o", "options", "help", "help granularity", "help sort", "help top", "help sample_index"}[t.Choose(K, 7)]})
				continue
			}
			f := fmt.Sprintf("f%d", i)
			if len(outNames) > 0 && t.Bool(K, 20) {
				// write over the output file of an earlier command
				f = outNames[t.Choose(K, len(outNames))]
			}
			outNames = append(outNames, f)
			line, mut := genC10Command(t, f)
			steps = append(steps, c10step{line: line, mut: mut, file: f})
		}
	}
	steps = append(steps, c10step{line: "o"})
	sessionNoDot = t.Bool(simrt.KCfg, 25)
	sessionOSWriter = t.Bool(simrt.KCfg, 35)
	defer func() { sessionNoDot, sessionOSWriter = false, false }()
	return c10CheckHistory(x, prof, steps, t.Bool(simrt.KCfg, 50))
}

// c10CheckHistory runs the history in one session and compares every step
// with a fresh session that has only the assignments made so far. With watch
// the session's loaded profile is observed as well: if a command modifies it,
// the history up to that command is re-run followed by a battery of plain
// reports, each compared with a fresh session - a modification that no later
// report can see is not a violation of the property, one that shows is.
func c10CheckHistory(x *xctx, prof []byte, steps []c10step, watchProfile bool) *violation {
	var lines []string
	for _, s := range steps {
		lines = append(lines, s.line)
		x.tr("line %q", s.line)
	}
	cfg := simrt.Config{Strategy: simrt.StratRunToBlock}
	freshProcess(true)
	var watch *profileWatch
	if watchProfile {
		watch = &profileWatch{mutatedAt: -1}
		sessionWatch = watch
	}
	sess := runInteractive(x, cfg, prof, nil, lines, nil)
	sessionWatch = nil
	if v := resultViolation(sess.res); v != nil {
		return v
	}
	if sess.err != nil {
		return violf("session-error", "interactive session returned %v", sess.err)
	}
	if watch != nil {
		if m := watch.mutatedAt; m >= 0 && m < len(steps) {
			x.tr("the session's loaded profile was modified by line %d %q: %s", m, lines[m], watch.diff)
			probe := append([]c10step{}, steps[:m+1]...)
			for i, cmd := range []string{"raw", "proto", "top", "traces", "tags", "tree", "text"} {
				f := fmt.Sprintf("w%d", i)
				probe = append(probe, c10step{line: cmd + " >" + f, file: f})
			}
			if v := c10CheckHistory(x, prof, probe, false); v != nil {
				v.Class = "session-profile-modified"
				v.Detail = fmt.Sprintf("line %d %q modified the profile the session holds (%s), and a later plain report shows it: %s", m, lines[m], watch.diff, v.Detail)
				return v
			}
			x.probe("session_profile_modified_without_visible_effect")
		}
		x.probe("session_profile_watched")
	}
	if sess.nread != len(lines)+1 {
		return violf("session-short", "session read %d lines of %d", sess.nread, len(lines)+1)
	}
	// After the history the original profile must be unchanged: a last fresh
	// "raw" over the session's state is part of the steps already (via the
	// reference comparison of every later command).
	type expectedOut struct {
		data    []byte
		step    int
		line    string
		assigns []string
	}
	expectFile := map[string]expectedOut{}
	var assigns []string
	filtersActive := false
	sawMutBeforePlain := false
	for i, s := range steps {
		if s.assign {
			assigns = append(assigns, s.line)
			if strings.Contains(s.line, "=") && !strings.HasSuffix(s.line, "=") {
				filtersActive = true
			}
			continue
		}
		refLines := append(append([]string{}, assigns...), s.line)
		freshProcess(true)
		ref := runInteractive(x, cfg, prof, nil, refLines, nil)
		if v := resultViolation(ref.res); v != nil {
			v.Class = "ref-" + v.Class
			return v
		}
		gotT, refT := sess.segs[i+1], ref.segs[len(refLines)]
		if gotT != refT {
			return violf("history-dependent-transcript", "step %d %q: messages differ from a fresh session with the same assignments %q:\n%s\n--- fresh ---\n%s", i, s.line, assigns, short(gotT, 600), short(refT, 600))
		}
		if s.file != "" {
			// Several commands may name the same output file: what the file
			// holds at the end of the session is what the last of them that
			// wrote it at all would write in a fresh session.
			if refF, okR := ref.files[s.file]; okR {
				expectFile[s.file] = expectedOut{refF, i, s.line, append([]string{}, assigns...)}
			}
		}
		if s.mut || filtersActive {
			sawMutBeforePlain = true
		} else if sawMutBeforePlain {
			x.probe("plain_report_after_mutating_report")
		}
	}
	for _, s := range steps {
		if s.file == "" {
			continue
		}
		gotF, okG := sess.files[s.file]
		exp, okR := expectFile[s.file]
		if okG != okR || !bytes.Equal(gotF, exp.data) {
			return violf("history-dependent-output", "output file %s (last written by step %d %q) differs from what that command writes in a fresh session with the same assignments %q (written %v/%v): %s", s.file, exp.step, exp.line, exp.assigns, okG, okR, firstDiff(string(gotF), string(exp.data)))
		}
		if okG && len(gotF) > 0 {
			x.states[fmt.Sprintf("%s|%s", strings.Join(exp.assigns, ";"), strings.Fields(exp.line)[0])] = true
		}
	}
	if sawMutBeforePlain {
		x.nontriv["i:"+strings.Join(lines, "\n")] = true
	}
	x.sample = map[string]interface{}{"mode": "interactive", "lines": lines}
	return nil
}

// ---- web ----

var c10WebPaths = []string{"/", "/top", "/peek", "/flamegraph", "/source", "/disasm", "/download", "/flamegraph2"}

func genC10WebReq(t *simrt.Tape, withConfigOps bool) string {
	K := simrt.KGen
	path := c10WebPaths[t.Choose(K, len(c10WebPaths))]
	if withConfigOps && t.Bool(K, 20) {
		name := cfgNames[t.Choose(K, len(cfgNames))]
		if t.Bool(K, 65) {
			q := url.Values{}
			for k, v := range genC19Params(t, false) {
				q.Set(k, v)
			}
			q.Set("config", name)
			return "/saveconfig?" + q.Encode()
		}
		return "/deleteconfig?config=" + url.QueryEscape(name)
	}
	q := url.Values{}
	if path == "/peek" || path == "/source" || path == "/disasm" || t.Bool(K, 25) {
		q.Set("f", c10Regexps[t.Choose(K, len(c10Regexps))])
	}
	n := t.Choose(K, 4)
	for j := 0; j < n; j++ {
		switch t.Choose(K, 21) {
		case 0:
			q.Set("i", c10Regexps[t.Choose(K, len(c10Regexps))])
		case 1:
			q.Set("h", c10Regexps[t.Choose(K, len(c10Regexps))])
		case 2:
			q.Set("s", c10Regexps[t.Choose(K, len(c10Regexps))])
		case 3:
			q.Set("tf", c10TagRx[t.Choose(K, len(c10TagRx))])
		case 4:
			q.Set("g", []string{"functions", "files", "lines", "addresses", "filefunctions"}[t.Choose(K, 5)])
		case 5:
			q.Set("n", []string{"1", "3", "0"}[t.Choose(K, 3)])
		case 6:
			q.Set("calltree", "t")
		case 7:
			q.Set("sort", "cum")
		case 8:
			q.Set("si", []string{"0", "samples", "1", "cpu"}[t.Choose(K, 4)])
		case 9:
			q.Set("sf", c10Regexps[t.Choose(K, len(c10Regexps))])
		case 10:
			q.Set("noinlines", "t")
		case 11:
			q.Set("th", c10WebTagRx[t.Choose(K, len(c10WebTagRx))])
		case 12:
			q.Set("ts", c10WebTagRx[t.Choose(K, len(c10WebTagRx))])
		case 13:
			q.Set("ti", c10TagRx[t.Choose(K, len(c10TagRx))])
		case 14:
			q.Set("prunefrom", c10Regexps[t.Choose(K, len(c10Regexps))])
		case 15:
			q.Set("rel", "t")
		case 16:
			// a sample index the profile does not have: rejected late
			q.Set("si", []string{"nosuchtype", "7", "-1"}[t.Choose(K, 3)])
		case 17:
			q.Set([]string{"trim", "dropneg", "mean", "norm", "compact", "showcolumns"}[t.Choose(K, 6)], []string{"t", "f"}[t.Choose(K, 2)])
		case 18:
			q.Set([]string{"nf", "ef"}[t.Choose(K, 2)], []string{"0", "0.5", "x"}[t.Choose(K, 3)])
		case 19:
			q.Set("unit", []string{"ms", "minimum", "parsecs"}[t.Choose(K, 3)])
		case 20:
			k, v := treeParam(t, c10Regexps)
			q.Set(k, v)
		}
	}
	r := path
	if len(q) > 0 {
		r += "?" + q.Encode()
	}
	if t.Bool(K, 8) {
		// the client goes away while the page is being sent
		r = fmt.Sprintf("!%d!%s", []int{0, 1, 700, 4096, 30000}[t.Choose(K, 5)], r)
	}
	return r
}

func mutatingQuery(target string) bool {
	target, _ = splitAbort(target)
	u, err := url.Parse(target)
	if err != nil {
		return false
	}
	q := u.Query()
	for _, k := range []string{"f", "i", "h", "s", "tf", "sf", "th", "ts", "ti", "prunefrom", "g", "noinlines"} {
		if q.Get(k) != "" {
			return true
		}
	}
	return false
}

func c10WebProfile(t *simrt.Tape) []byte {
	K := simrt.KGen
	return encodeProfile(genProfile(t, genOpts{types: 1 + t.Choose(K, 2), labels: true, inlines: true, maxFuncs: 7, maxSamples: 10}))
}

func respDiff(a, b webResp) string {
	if a.Broken {
		// a is what reached a client that went away, b the complete answer
		if a.Code != b.Code {
			return fmt.Sprintf("status %d vs %d", a.Code, b.Code)
		}
		if !strings.HasPrefix(b.Body, a.Body) {
			return "delivered part is not a prefix of the complete answer: " + firstDiff(a.Body, b.Body)
		}
		return ""
	}
	if a.Code != b.Code {
		return fmt.Sprintf("status %d vs %d (%q vs %q)", a.Code, b.Code, short(a.Body, 120), short(b.Body, 120))
	}
	if a.Body != b.Body {
		return firstDiff(a.Body, b.Body)
	}
	return ""
}

func c10WebSequential(x *xctx) *violation {
	t := x.t
	K := simrt.KGen
	prof := c10WebProfile(t)
	n := 2 + t.Choose(K, 8)
	reqs := make([]string, n)
	for i := range reqs {
		reqs[i] = genC10WebReq(t, true)
		x.tr("GET %s", reqs[i])
	}
	resps := make([]webResp, n)
	settingsBefore := make([][]byte, n)
	cfg := simrt.Config{Strategy: simrt.StratRunToBlock}
	freshProcess(true)
	res, err := webSession(x, cfg, prof, nil, func(s *c19session) {
		for i, r := range reqs {
			if data, ok := simos.GetFile(simSettings); ok {
				settingsBefore[i] = data
			}
			resps[i] = s.do(r)
		}
	})
	if v := resultViolation(res); v != nil {
		return v
	}
	if err != nil {
		return violf("session-error", "web session returned %v", err)
	}
	mutSeen := false
	for i, r := range reqs {
		if resps[i].Panic != "" {
			return violf("panic", "GET %s panicked: %s", r, resps[i].Panic)
		}
		var ref webResp
		freshProcess(true)
		res, _ := webSession(x, cfg, prof, settingsBefore[i], func(s *c19session) { plain, _ := splitAbort(r); ref = s.do(plain) })
		if v := resultViolation(res); v != nil {
			v.Class = "ref-" + v.Class
			return v
		}
		if d := respDiff(resps[i], ref); d != "" {
			return violf("history-dependent-response", "request %d GET %s after %v differs from the same request on a fresh session: %s", i, r, reqs[:i], d)
		}
		if mutatingQuery(r) {
			mutSeen = true
		} else if mutSeen && resps[i].Code == 200 {
			x.probe("plain_request_after_filtering_request")
		}
		if resps[i].Broken {
			x.fault("net:client-gone-mid-response", 1)
		}
		x.states[strings.SplitN(r, "?", 2)[0]+fmt.Sprint(resps[i].Code)] = true
	}
	if mutSeen {
		x.nontriv["w:"+strings.Join(reqs, " ")] = true
	}
	x.sample = map[string]interface{}{"mode": "web-sequential", "requests": reqs}
	return nil
}

func c10WebConcurrent(x *xctx) *violation {
	t := x.t
	K := simrt.KGen
	prof := c10WebProfile(t)
	ntasks := 2 + t.Choose(K, 3)
	if c20Enum {
		ntasks = 2 // systematic enumeration of schedules: two requests
	}
	per := make([][]string, ntasks)
	var all []string
	for i := range per {
		n := 1 + t.Choose(K, 2)
		if c20Enum {
			n = 1
		}
		for j := 0; j < n; j++ {
			r := genC10WebReq(t, false)
			per[i] = append(per[i], r)
			all = append(all, r)
		}
	}
	cfg := simrt.Config{Strategy: simrt.StratRandom, SwitchT: []int{128, 26, 230}[t.Choose(simrt.KCfg, 3)], PreemptMean: []int{50, 400, 3000, 0}[t.Choose(simrt.KCfg, 4)]}
	if t.Bool(simrt.KCfg, 25) {
		cfg = simrt.Config{Strategy: simrt.StratPCT, PCTDepth: 1 + t.Choose(simrt.KCfg, 3), PCTSteps: 3000, PreemptMean: 100}
	}
	if c20Enum {
		cfg = simrt.Config{Strategy: simrt.StratEnum}
	}
	resps := make([][]webResp, ntasks)
	freshProcess(true)
	res, err := webSession(x, cfg, prof, nil, func(s *c19session) {
		var hs []*simrt.Handle
		for i := range per {
			i := i
			resps[i] = make([]webResp, len(per[i]))
			hs = append(hs, simrt.GoJoinable(fmt.Sprintf("client%d", i), func() {
				for j, r := range per[i] {
					resps[i][j] = s.do(r)
				}
			}))
		}
		for _, h := range hs {
			simrt.Join(h)
		}
	})
	if v := resultViolation(res); v != nil {
		return v
	}
	if err != nil {
		return violf("session-error", "web session returned %v", err)
	}
	seq := simrt.Config{Strategy: simrt.StratRunToBlock}
	for i := range per {
		for j, r := range per[i] {
			x.tr("client%d GET %s -> %d", i, r, resps[i][j].Code)
			if resps[i][j].Panic != "" {
				return violf("panic", "GET %s panicked: %s", r, resps[i][j].Panic)
			}
			var ref webResp
			freshProcess(true)
			rres, _ := webSession(x, seq, prof, nil, func(s *c19session) { plain, _ := splitAbort(r); ref = s.do(plain) })
			if v := resultViolation(rres); v != nil {
				v.Class = "ref-" + v.Class
				return v
			}
			if resps[i][j].Broken {
				x.fault("net:client-gone-mid-response", 1)
			}
			if d := respDiff(resps[i][j], ref); d != "" {
				return violf("concurrency-dependent-response", "GET %s served concurrently with %v differs from the same request served alone: %s", r, all, d)
			}
		}
	}
	if res.Switches > 0 {
		x.probe("switch_inside_concurrent_requests")
		sort.Strings(all)
		x.nontriv[fmt.Sprintf("c:%s|%016x", strings.Join(all, " "), res.SwitchSig)] = true
	}
	gran := map[string]bool{}
	for _, r := range all {
		if u, err := url.Parse(r); err == nil {
			gran[u.Query().Get("g")] = true
		}
	}
	if len(gran) > 1 {
		x.probe("concurrent_requests_with_different_granularity")
	}
	x.sample = map[string]interface{}{"mode": "web-concurrent", "clients": per, "switches": res.Switches}
	return nil
}
