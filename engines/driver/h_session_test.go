//go:build verif

package driver

// Session runners shared by the C08, C09, C10 and C20 engines: one
// interactive session or one web session of the real driver.PProf inside a
// simulated run, with scripted tools on simexec and sources on simos.

import (
	"crypto/sha256"
	"fmt"
	"html"
	"net/http"
	"strings"

	"github.com/google/pprof/internal/plugin"
	"github.com/google/pprof/internal/verifsim/simexec"
	"github.com/google/pprof/internal/verifsim/simos"
	"github.com/google/pprof/internal/verifsim/simrt"
	"github.com/google/pprof/profile"
)

// installTools scripts the external programs a session may start.
func installTools(withDot bool) {
	if withDot {
		simexec.Register("dot", &simexec.Program{Batch: func(args []string, stdin []byte) ([]byte, []byte, int) {
			// A deterministic stand-in for graphviz: the output is a function of
			// the whole input, so any difference in the DOT source shows.
			sum := sha256.Sum256(stdin)
			out := fmt.Sprintf("<?xml version=\"1.0\"?>\n<svg width=\"100pt\" height=\"100pt\" viewBox=\"0 0 100 100\">\n<!-- %s sha256=%x -->\n<g id=\"graph0\" class=\"graph\"><title>%d bytes</title>\n%s\n</g>\n</svg>\n",
				strings.Join(args[1:], " "), sum, len(stdin), html.EscapeString(string(stdin)))
			return []byte(out), nil, 0
		}})
	}
}

func installSources() {
	for _, f := range fileNames {
		var sb strings.Builder
		for i := 1; i <= 120; i++ {
			fmt.Fprintf(&sb, "// line %d of %s\n", i, f)
		}
		p := f
		if !strings.HasPrefix(p, "/") {
			p = "/sim/cwd/" + p
		}
		simos.PutFile(p, []byte(sb.String()))
	}
}

type sessionOut struct {
	segs   []string // UI transcript per input line (segs[0]: before the first prompt)
	files  map[string][]byte
	stdout string
	err    error
	res    simrt.Result
	ui     *simUI
	nread  int
}

// runInteractive runs one interactive pprof session over lines.
// sessionNoDot makes the next sessions run without graphviz installed (the
// same for a history and for its fresh-session references).
var sessionNoDot bool

// sessionOSWriter makes interactive sessions use pprof's default Writer
// (files on the simulated disk) instead of the in-memory one.
var sessionOSWriter bool

// sessionWatch, when non-nil, makes runInteractive take the session apart the
// way driver.PProf does (defaults, flags, fetch, interactive) so that it has
// the session's loaded profile in hand, and compare that profile with its
// initial state every time the session asks for the next line: commands get
// copies, the loaded profile itself never changes.
var sessionWatch *profileWatch

type profileWatch struct {
	p         *profile.Profile
	initial   string
	mutatedAt int // index of the line after which the profile first differed, -1 none
	diff      string
}

func runInteractive(x *xctx, cfg simrt.Config, prof []byte, flags []string, lines []string, perLine func(i int)) sessionOut {
	simos.PutFile("/sim/cwd/prof.pb.gz", prof)
	installTools(!sessionNoDot)
	installSources()
	var marks []int
	ui := &simUI{lines: lines}
	watch := sessionWatch
	ui.onRead = func(u *simUI, prompt string) {
		marks = append(marks, len(u.out))
		if watch != nil && watch.p != nil && watch.mutatedAt < 0 {
			if now := watch.p.String(); now != watch.initial {
				watch.mutatedAt = len(marks) - 2
				watch.diff = firstDiff(now, watch.initial)
			}
		}
		if perLine != nil {
			perLine(len(marks) - 1)
		}
	}
	w := newWriter()
	o := &plugin.Options{Flagset: newFlags(append(append([]string{}, flags...), "prof.pb.gz")), UI: ui, Writer: w, Sym: nopSym{}, Obj: nopObj{}, HTTPTransport: failTransport{}}
	before := map[string]bool{}
	if sessionOSWriter {
		// pprof's own writer: output files are created on the (simulated) disk
		o.Writer = nil
		for _, n := range simos.ListFiles("/sim/cwd/") {
			before[n] = true
		}
	}
	var out sessionOut
	cfg.Tape = x.t
	out.res = simrt.Exec(cfg, func() {
		if watch == nil {
			out.err = PProf(o)
			return
		}
		out.err = func() error {
			defer cleanupTempFiles()
			o := setDefaults(o)
			src, cmd, err := parseFlags(o)
			if err != nil {
				return err
			}
			p, err := fetchProfiles(src, o)
			if err != nil {
				return err
			}
			if cmd != nil || src.HTTPHostport != "" {
				return fmt.Errorf("not an interactive session")
			}
			watch.p, watch.initial, watch.mutatedAt = p, p.String(), -1
			return interactive(p, o)
		}()
	})
	x.note(out.res)
	marks = append(marks, len(ui.out))
	prev := 0
	for _, m := range marks {
		if m > len(ui.out) {
			m = len(ui.out)
		}
		out.segs = append(out.segs, ui.transcriptRange(prev, m))
		prev = m
	}
	out.files = map[string][]byte{}
	for _, n := range w.order {
		b, _ := w.get(n)
		out.files[n] = b
	}
	if sessionOSWriter {
		for _, n := range simos.ListFiles("/sim/cwd/") {
			if !before[n] {
				b, _ := simos.GetFile(n)
				out.files[strings.TrimPrefix(n, "/sim/cwd/")] = b
			}
		}
	}
	out.stdout = string(simos.TakeStdout())
	out.ui = ui
	out.nread = len(marks) - 1
	return out
}

// webSession runs script inside a web session (see withWeb in c19_test.go),
// with tools and sources installed and optional settings contents.
func webSession(x *xctx, cfg simrt.Config, prof []byte, settings []byte, script func(s *c19session)) (simrt.Result, error) {
	installTools(true)
	installSources()
	if settings != nil {
		simos.PutFile(simSettings, settings)
	}
	return withWeb(x, cfg, prof, script)
}

var _ = http.StatusOK
