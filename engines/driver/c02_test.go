//go:build verif

package driver

// C02 (restricted): parsing is total on what a valid stored profile turns
// into when storage and streams misbehave.
//
// The corpus (seeded generated profiles in both serialisations plus every
// file under profile/testdata and internal/driver/testdata that the parser
// accepts) is written to the simulated disk, damaged by exactly one
// enumerated fault (torn write / early EOF at every length, one flipped
// stored byte at every position with five masks - on the compressed bytes
// and, for gzip, on the payload re-compressed -, a zeroed, dropped or
// duplicated sector, a read error after k bytes, 1-byte short reads) and read
// back through simos by the real parser. Oracle: no panic, returns promptly,
// an error or a profile that passes an independent validity check and
// survives CheckValid, Write->Parse, Copy, Compact and every text report.

import (
	"bytes"
	"compress/gzip"
	"fmt"
	"io"
	realos "os"
	"path/filepath"
	"runtime/debug"
	"sort"
	"strings"
	"syscall"
	"time"

	"github.com/google/pprof/internal/plugin"
	"github.com/google/pprof/internal/verifsim/simos"
	"github.com/google/pprof/internal/verifsim/simrt"
	"github.com/google/pprof/profile"
)

func init() {
	register(&engine{name: "c02", prop: "C02", run: runC02})
}

type corpusFile struct {
	name string
	data []byte
}

var c02Corpus []corpusFile

func loadC02Corpus() {
	if c02Corpus != nil {
		return
	}
	repo := realos.Getenv("VERIF_REPO")
	if repo == "" {
		repo = "/repo"
	}
	for _, dir := range []string{"profile/testdata", "internal/driver/testdata"} {
		ents, _ := realos.ReadDir(filepath.Join(repo, dir))
		for _, e := range ents {
			if e.IsDir() {
				continue
			}
			data, err := realos.ReadFile(filepath.Join(repo, dir, e.Name()))
			if err != nil || len(data) == 0 || len(data) > 64<<10 {
				continue
			}
			if _, err := profile.ParseData(data); err != nil {
				continue
			}
			c02Corpus = append(c02Corpus, corpusFile{dir + "/" + e.Name(), data})
		}
	}
	sort.Slice(c02Corpus, func(i, j int) bool { return c02Corpus[i].name < c02Corpus[j].name })
	if len(c02Corpus) == 0 {
		c02Corpus = []corpusFile{}
	}
}

func gunzip(b []byte) ([]byte, bool) {
	if len(b) < 2 || b[0] != 0x1f || b[1] != 0x8b {
		return nil, false
	}
	zr, err := gzip.NewReader(bytes.NewReader(b))
	if err != nil {
		return nil, false
	}
	out, err := io.ReadAll(zr)
	if err != nil {
		return nil, false
	}
	return out, true
}

func gz(b []byte) []byte {
	var buf bytes.Buffer
	zw := gzip.NewWriter(&buf)
	zw.Write(b)
	zw.Close()
	return buf.Bytes()
}

// independentValid re-checks the validity contract without using CheckValid.
func independentValid(p *profile.Profile) error {
	nt := len(p.SampleType)
	for i, st := range p.SampleType {
		if st == nil {
			return fmt.Errorf("nil sample type %d", i)
		}
	}
	maps := map[*profile.Mapping]int{}
	mids := map[uint64]bool{}
	for _, m := range p.Mapping {
		if m == nil {
			return fmt.Errorf("nil mapping")
		}
		if m.ID == 0 || mids[m.ID] {
			return fmt.Errorf("mapping id %d zero or duplicate", m.ID)
		}
		mids[m.ID] = true
		maps[m]++
	}
	funcs := map[*profile.Function]int{}
	fids := map[uint64]bool{}
	for _, f := range p.Function {
		if f == nil {
			return fmt.Errorf("nil function")
		}
		if f.ID == 0 || fids[f.ID] {
			return fmt.Errorf("function id %d zero or duplicate", f.ID)
		}
		fids[f.ID] = true
		funcs[f]++
	}
	locs := map[*profile.Location]int{}
	lids := map[uint64]bool{}
	for _, l := range p.Location {
		if l == nil {
			return fmt.Errorf("nil location")
		}
		if l.ID == 0 || lids[l.ID] {
			return fmt.Errorf("location id %d zero or duplicate", l.ID)
		}
		lids[l.ID] = true
		locs[l]++
		if l.Mapping != nil && maps[l.Mapping] != 1 {
			return fmt.Errorf("location %d references a mapping that is not in the profile exactly once", l.ID)
		}
		for _, ln := range l.Line {
			if ln.Function != nil && funcs[ln.Function] != 1 {
				return fmt.Errorf("location %d references a function that is not in the profile exactly once", l.ID)
			}
		}
	}
	for i, s := range p.Sample {
		if s == nil {
			return fmt.Errorf("nil sample %d", i)
		}
		if len(s.Value) != nt {
			return fmt.Errorf("sample %d has %d values for %d sample types", i, len(s.Value), nt)
		}
		for _, l := range s.Location {
			if l == nil || locs[l] != 1 {
				return fmt.Errorf("sample %d references a location that is not in the profile exactly once", i)
			}
		}
	}
	return nil
}

var c02Reports = [][]string{{"top"}, {"tree"}, {"traces"}, {"tags"}, {"raw"}, {"peek", "."}, {"dot"}, {"callgrind"}, {"topproto"}, {"text"}, {"comments"}}

type c02result struct {
	parsed  bool
	errText string
	digest  string
}

// c02Try parses the file at path through simos inside a simulated task and
// pushes a returned profile through the downstream pipeline.
func c02Try(x *xctx, path string, heavy bool) (c02result, *violation) {
	var out c02result
	var viol *violation
	start := time.Now()
	res := simrt.Exec(simrt.Config{Tape: x.t, Strategy: simrt.StratRunToBlock}, func() {
		defer func() {
			if r := recover(); r != nil {
				if simrt.IsAbort(r) {
					panic(r)
				}
				viol = violf("panic", "panic: %v\n%s", r, short(string(debug.Stack()), 2500))
			}
		}()
		f, err := simos.Open(path)
		if err != nil {
			out.errText = err.Error()
			return
		}
		defer f.Close()
		p, err := profile.Parse(f)
		if err != nil {
			out.errText = err.Error()
			return
		}
		out.parsed = true
		if err := independentValid(p); err != nil {
			viol = violf("invalid-accepted", "the parser returned a profile that breaks the validity contract: %v", err)
			return
		}
		if err := p.CheckValid(); err != nil {
			viol = violf("invalid-accepted", "the parser returned a profile that fails CheckValid: %v", err)
			return
		}
		var buf bytes.Buffer
		if err := p.Write(&buf); err != nil {
			viol = violf("unwritable", "a parsed profile cannot be written: %v", err)
			return
		}
		q, err := profile.Parse(&buf)
		if err != nil {
			viol = violf("write-parse-fails", "a parsed profile, written, does not parse again: %v", err)
			return
		}
		var raw bytes.Buffer
		q.WriteUncompressed(&raw)
		out.digest = fmt.Sprintf("%x", hashStr(raw.String()))
		c := p.Copy()
		c.Compact()
		if !heavy {
			return
		}
		// every text report on a fresh copy
		for _, cmd := range c02Reports {
			o := &plugin.Options{UI: &simUI{}, Writer: newWriter(), Obj: nopObj{}, Sym: nopSym{}}
			cfg := defaultConfig()
			cfg.Output = "out"
			if err := generateReport(p.Copy(), cmd, cfg, o); err != nil {
				continue // "reports an error" is fine
			}
		}
	})
	x.note(res)
	if viol != nil {
		return out, viol
	}
	if v := resultViolation(res); v != nil {
		return out, v
	}
	if d := time.Since(start); d > 20*time.Second {
		return out, violf("slow", "parsing took %v", d)
	}
	return out, nil
}

func runC02(x *xctx) *violation {
	loadC02Corpus()
	t := x.t
	K := simrt.KGen
	freshProcess(true)
	// pick the corpus entry
	var name string
	var data []byte
	limit := 4 << 10
	if x.tier == "thorough" {
		limit = 64 << 10
	}
	if len(c02Corpus) > 0 && t.Bool(K, 60) {
		var small []corpusFile
		for _, c := range c02Corpus {
			if len(c.data) <= limit {
				small = append(small, c)
			}
		}
		if len(small) > 0 {
			c := small[t.Choose(K, len(small))]
			name, data = c.name, c.data
		}
	}
	// A seeded legacy binary CPU profile (profilez): 64-bit little-endian
	// words, a small address universe so that repeated frames and shared
	// addresses are the norm, and a /proc/maps style trailer.
	genProfilez := func() (string, []byte) {
		var buf bytes.Buffer
		w64 := func(v uint64) {
			var b [8]byte
			for i := 0; i < 8; i++ {
				b[i] = byte(v >> (8 * i))
			}
			buf.Write(b[:])
		}
		for _, v := range []uint64{0, 3, 0, uint64(1000 * (1 + t.Choose(K, 10))), 0} {
			w64(v)
		}
		ns := 1 + t.Choose(K, 6)
		for i := 0; i < ns; i++ {
			w64(uint64(1 + t.Choose(K, 50)))
			depth := 1 + t.Choose(K, 5)
			w64(uint64(depth))
			for d := 0; d < depth; d++ {
				w64(0x400000 + 0x10*uint64(1+t.Choose(K, 4)))
			}
		}
		for _, v := range []uint64{0, 1, 0} {
			w64(v)
		}
		trailers := []string{
			"00400000-00500000 r-xp 00000000 00:00 0          /bin/prog\n",
			"00400000-00500000 r-xp 00000000 fd:01 1234       /bin/prog (deleted)\n",
			"00400000-00500000 r-xp 00000000 fd:01 1234       (deleted)\n",
			"00400000-00500000 r-xp 00000000 00:00 0          [vdso]\n00500000-00600000 r-xp 00000000 00:00 0          /lib/libc-2.31.so\n",
			"00400000-00500000: /bin/prog\n",
			"00400000-00500000 r-xp 00000000 00:00 0          /anon_hugepage (deleted)\n",
			"00400000-00500000 r-xp 00000000 00:00 0          /anon_hugepage (deleted)\n00500000-00600000 r-xp 00000000 00:00 0          /bin/prog\n",
			"00400000-00500000 r-xp 00000000 00:00 0\n",
			"",
		}
		tr := trailers[t.Choose(K, len(trailers))]
		if t.Bool(K, 25) {
			tr = "00400000-00500000 r-xp 00000000 fd:01 1234       " + dictStr(t, "/bin/prog") + "\n"
		}
		buf.WriteString("MAPPED_LIBRARIES:\n" + tr)
		return "generated.profilez", buf.Bytes()
	}
	if data == nil && t.Bool(K, 20) {
		name, data = genProfilez()
	}
	genProto := func() (string, []byte) {
		p := genProfile(t, genOpts{labels: true, inlines: true, negative: true, odd: t.Bool(K, 30), maxFuncs: 4, maxSamples: 4})
		var buf bytes.Buffer
		if t.Bool(K, 50) {
			p.Write(&buf)
			return "generated.pb.gz", buf.Bytes()
		}
		p.WriteUncompressed(&buf)
		return "generated.pb", buf.Bytes()
	}
	if data == nil {
		name, data = genProto()
	}
	deep := false
	if t.Bool(K, 4) {
		// one sample with a very deep stack and one location with very many
		// inlined lines: nested messages of tens of KiB
		p := &profile.Profile{SampleType: []*profile.ValueType{{Type: "samples", Unit: "count"}}, PeriodType: &profile.ValueType{Type: "cpu", Unit: "ns"}, Period: 1}
		f := &profile.Function{ID: 1, Name: "deep", SystemName: "deep", Filename: "/src/main.go"}
		p.Function = []*profile.Function{f}
		m := &profile.Mapping{ID: 1, Start: 0x1000, Limit: 0x90000, File: "/bin/prog"}
		p.Mapping = []*profile.Mapping{m}
		l1 := &profile.Location{ID: 1, Mapping: m, Address: 0x2000, Line: []profile.Line{{Function: f, Line: 1}}}
		l2 := &profile.Location{ID: 2, Mapping: m, Address: 0x3000}
		for i := 0; i < 3000+t.Choose(K, 3000); i++ {
			l2.Line = append(l2.Line, profile.Line{Function: f, Line: int64(i)})
		}
		p.Location = []*profile.Location{l1, l2}
		smp := &profile.Sample{Value: []int64{1}}
		for i, n := 0, 17000+t.Choose(K, 30000); i < n; i++ {
			smp.Location = append(smp.Location, l1)
		}
		p.Sample = []*profile.Sample{smp, {Value: []int64{2}, Location: []*profile.Location{l2}}}
		var buf bytes.Buffer
		p.Write(&buf)
		name, data, deep = "generated-deep.pb.gz", buf.Bytes(), true
	}
	payload, isGz := gunzip(data)
	x.tr("corpus entry %s (%d bytes, gzip=%v)", name, len(data), isGz)
	const path = "/sim/cwd/in.prof"

	// fault-free reference
	simos.PutFile(path, data)
	ref, v := c02Try(x, path, true)
	if v != nil {
		v.Detail = "undamaged " + name + ": " + v.Detail
		return v
	}
	if !ref.parsed {
		return violf("corpus-rejected", "undamaged corpus entry %s does not parse: %s", name, ref.errText)
	}
	// 1-byte short reads must change nothing
	simos.SetShortReads(true)
	sr, v := c02Try(x, path, false)
	simos.SetShortReads(false)
	if v != nil {
		return v
	}
	if !sr.parsed || sr.digest != ref.digest {
		return violf("short-read-dependent", "%s read in 1-byte pieces parses differently (parsed=%v %s vs %s): %s", name, sr.parsed, sr.digest, ref.digest, sr.errText)
	}
	x.fault("shortread-1byte", 1)

	// The fault-free configuration on its own: a batch of further undamaged
	// generated profiles through the same parse-and-downstream pipeline. Each
	// costs one execution, against the ~1700 damaged ones of the entry above,
	// and keeps the variety of well-formed inputs from being the bottleneck.
	for i := 0; i < 32; i++ {
		n2, d2 := genProto()
		if i%4 == 3 {
			n2, d2 = genProfilez()
		}
		if i%8 == 5 {
			n2, d2 = "generated-legacy.txt", genLegacyText(t)
		}
		simos.PutFile(path, d2)
		r2, v := c02Try(x, path, true)
		if v != nil {
			x.tr("undamaged extra entry %d: %s (%d bytes)", i, n2, len(d2))
			v.Detail = "undamaged " + n2 + ": " + v.Detail
			return v
		}
		if !r2.parsed && n2 != "generated-legacy.txt" {
			// (the seeded legacy texts are not all acceptable inputs: an error is a fine answer for them)
			return violf("corpus-rejected", "undamaged generated profile %s does not parse: %s", n2, r2.errText)
		}
		x.stats["undamaged_extra"]++
	}
	simos.PutFile(path, data)

	execs, parsedDamaged, e2e := 0, 0, 0
	cut := false
	try := func(kind string, desc string, mutated []byte) *violation {
		if cut {
			return nil
		}
		if execs%32 == 31 && pastWorkerDeadline(45*time.Second) {
			cut = true
			x.probe("fault_family_enumeration_cut_at_worker_deadline")
			return nil
		}
		simos.PutFile(path, mutated)
		execs++
		if execs%97 == 1 {
			// every 97th damaged input also goes through the whole tool:
			// pprof -top <file> must report an error or produce the report
			e2e++
			w := newWriter()
			o := &plugin.Options{Flagset: newFlags([]string{"-top", "-output=o", "in.prof"}), UI: newTaskUI(), Writer: w, Sym: nopSym{}, Obj: nopObj{}, HTTPTransport: failTransport{}}
			res := simrt.Exec(simrt.Config{Tape: x.t, Strategy: simrt.StratRunToBlock}, func() { PProf(o) })
			x.note(res)
			if v := resultViolation(res); v != nil {
				x.tr("fault: %s (end to end: pprof -top)", desc)
				v.Detail = fmt.Sprintf("pprof -top on %s damaged by %s: %s", name, desc, v.Detail)
				return v
			}
			simos.PutFile(path, mutated)
		}
		// Validity, Write->Parse, Copy and Compact for every damaged input; the
		// eleven text reports for every one in the thorough tier and for every
		// 8th in the quick tier (they dominate the cost when most damaged
		// variants of a text format still parse).
		r, v := c02Try(x, path, x.tier == "thorough" || execs%8 == 0)
		x.fault(kind, 1)
		if v != nil {
			x.tr("fault: %s", desc)
			v.Detail = fmt.Sprintf("%s damaged by %s: %s", name, desc, v.Detail)
			return v
		}
		if r.parsed && r.digest != ref.digest {
			parsedDamaged++
		}
		return nil
	}
	// Which family this run enumerates (one family per run keeps runs short;
	// all families are enumerated completely for the chosen file).
	fam := t.Choose(simrt.KFault, 6)
	if deep {
		fam = 5 // the seeded multi-fault family only: the enumerating families would take minutes on this entry
	}
	masks := []func(byte) byte{func(b byte) byte { return b ^ 0x01 }, func(b byte) byte { return b ^ 0x80 }, func(b byte) byte { return b ^ 0xFF }, func(byte) byte { return 0 }, func(byte) byte { return 0x7F }}
	maskNames := []string{"^0x01", "^0x80", "^0xFF", "=0x00", "=0x7F"}
	flipAll := func(kind string, src []byte, wrap func([]byte) []byte) *violation {
		for i := range src {
			for mi, m := range masks {
				nb := m(src[i])
				if nb == src[i] {
					continue
				}
				mut := append([]byte{}, src...)
				mut[i] = nb
				if v := try(kind, fmt.Sprintf("stored byte %d %s", i, maskNames[mi]), wrap(mut)); v != nil {
					return v
				}
			}
		}
		return nil
	}
	ident := func(b []byte) []byte { return b }
	switch fam {
	case 0: // torn write / early EOF at every length
		for n := 0; n < len(data); n++ {
			if v := try("truncate", fmt.Sprintf("truncation to %d of %d bytes", n, len(data)), data[:n]); v != nil {
				return v
			}
		}
		if isGz {
			for n := 0; n < len(payload); n++ {
				if v := try("truncate-payload", fmt.Sprintf("payload truncated to %d of %d bytes, recompressed", n, len(payload)), gz(payload[:n])); v != nil {
					return v
				}
			}
		}
	case 1: // one flipped stored byte
		if v := flipAll("flip", data, ident); v != nil {
			return v
		}
	case 2: // one flipped payload byte behind a valid gzip wrapper
		if isGz {
			if v := flipAll("flip-payload", payload, gz); v != nil {
				return v
			}
			// ... and behind a wrapper that is itself damaged at its end (an
			// interrupted copy of an already corrupt file): trailer cut short,
			// checksum wrong, stray bytes appended
			for i := range payload {
				mut := append([]byte{}, payload...)
				mut[i] ^= 0x01
				z := gz(mut)
				bad := append([]byte{}, z...)
				bad[len(bad)-6] ^= 0xFF
				for wi, w := range [][]byte{z[:len(z)-4], bad, append(append([]byte{}, z...), 0, 0, 0, 0)} {
					if v := try("flip-payload+gzip-trailer", fmt.Sprintf("payload byte %d bit 0 flipped, recompressed, gzip trailer %s", i, []string{"cut by 4 bytes", "checksum inverted", "followed by 4 stray bytes"}[wi]), w); v != nil {
						return v
					}
				}
			}
		} else if v := flipAll("flip", data, ident); v != nil {
			return v
		}
	case 3: // sectors zeroed, dropped, duplicated
		src, wrap := data, ident
		if isGz && t.Bool(simrt.KFault, 50) {
			src, wrap = payload, gz
		}
		for _, sz := range []int{512, 64, 16} {
			for off := 0; off < len(src); off += sz {
				end := off + sz
				if end > len(src) {
					end = len(src)
				}
				z := append([]byte{}, src...)
				for i := off; i < end; i++ {
					z[i] = 0
				}
				if v := try("sector-zeroed", fmt.Sprintf("%d-byte sector at %d zeroed", sz, off), wrap(z)); v != nil {
					return v
				}
				d := append(append([]byte{}, src[:off]...), src[end:]...)
				if v := try("sector-lost", fmt.Sprintf("%d-byte sector at %d lost", sz, off), wrap(d)); v != nil {
					return v
				}
				dup := append(append(append([]byte{}, src[:end]...), src[off:end]...), src[end:]...)
				if v := try("sector-duplicated", fmt.Sprintf("%d-byte sector at %d duplicated", sz, off), wrap(dup)); v != nil {
					return v
				}
			}
		}
	case 4: // read error at the c-th read call, after 0, 1 or 100 bytes of it
		simos.PutFile(path, data)
		for c := 0; c < 200; c++ {
			fired := false
			for _, arg := range []int{0, 1, 100} {
				simos.SetPathFaults([]simos.PathFault{{Path: path, Op: simos.OpRead, Kind: simos.FReadErr, Arg: arg, Errno: syscall.EIO, After: c}})
				execs++
				r, v := c02Try(x, path, false)
				if v != nil {
					x.tr("fault: EIO at read call %d after %d bytes", c, arg)
					v.Detail = fmt.Sprintf("%s with EIO at read call %d after %d bytes: %s", name, c, arg, v.Detail)
					simos.SetPathFaults(nil)
					return v
				}
				if !r.parsed {
					fired = true
					x.fault("read-error", 1)
				} else if r.digest != ref.digest {
					simos.SetPathFaults(nil)
					return violf("read-error-swallowed", "%s with EIO at read call %d: a different profile was returned instead of an error", name, c)
				}
			}
			if !fired {
				break // past the last read call of this file
			}
		}
		simos.SetPathFaults(nil)
	case 5: // pairs of faults and structure-targeted damage: seeded
		src, wrap := data, ident
		if isGz {
			src, wrap = payload, gz
		}
		n := 300
		if x.tier == "thorough" {
			n = 3000
		}
		for i := 0; i < n && len(src) > 0; i++ {
			mut := append([]byte{}, src...)
			k := 2 + t.Choose(simrt.KFault, 2)
			var d []string
			for j := 0; j < k; j++ {
				pos := t.Choose(simrt.KFault, len(mut))
				switch t.Choose(simrt.KFault, 4) {
				case 0:
					mut[pos] = masks[t.Choose(simrt.KFault, len(masks))](mut[pos])
					d = append(d, fmt.Sprintf("byte %d changed", pos))
				case 1: // a varint made huge: length prefix past the end, id near 2^64
					ins := []byte{0xff, 0xff, 0xff, 0xff, 0xff, 0xff, 0xff, 0xff, 0xff, 0x01}
					mut = append(append(append([]byte{}, mut[:pos]...), ins...), mut[pos+1:]...)
					d = append(d, fmt.Sprintf("byte %d replaced by a maximal varint", pos))
				case 2:
					mut = mut[:pos]
					d = append(d, fmt.Sprintf("cut at %d", pos))
				case 3:
					mut = append(mut, mut[pos:]...)
					d = append(d, fmt.Sprintf("tail from %d appended again", pos))
				}
				if len(mut) == 0 {
					break
				}
			}
			if v := try("multi", strings.Join(d, " + "), wrap(mut)); v != nil {
				return v
			}
		}
	}
	x.stats["damaged_inputs"] += int64(execs)
	x.stats["end_to_end_pprof_runs"] += int64(e2e)
	x.stats["damaged_inputs_that_parsed_differently"] += int64(parsedDamaged)
	if parsedDamaged > 0 {
		x.probe("damaged_input_accepted_as_different_profile")
	}
	famNames := []string{"truncation", "flip", "flip-payload", "sectors", "read-error", "multi"}
	x.nontriv[fmt.Sprintf("%s|%x|%s", name, hashStr(string(data)), famNames[fam])] = true
	x.states[name+"|"+famNames[fam]] = true
	x.sample = map[string]interface{}{"mode": famNames[fam], "corpus_entry": name, "bytes": len(data), "gzip": isGz, "damaged_inputs": execs, "parsed_to_a_different_profile": parsedDamaged}
	return nil
}
