module verifengines

go 1.23
