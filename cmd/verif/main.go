package main

import (
	"encoding/json"
	"fmt"
	"os"

	"verif/instrument"
)

func main() {
	if len(os.Args) > 1 && os.Args[1] == "instrument" {
		st, err := instrument.Run(instrument.Options{Repo: "/repo", SimDir: "/verif/sim", OutDir: os.Args[2],
			HideTest: []string{"internal/driver"},
			Inject: map[string]string{"internal/driver/verif_smoke_test.go": "/verif/engines/driver/smoke_test.go"}})
		if err != nil {
			fmt.Fprintln(os.Stderr, err)
			os.Exit(2)
		}
		st.Sites = nil
		b, _ := json.MarshalIndent(st, "", " ")
		fmt.Println(string(b))
	}
}
