// Command verif is the orchestrator of the deterministic-simulation checks.
//
//	verif check <property> [--tier quick|thorough]
//	verif replay <file>
//	verif instrument <outdir>
//
// Exit 0: property held on everything explored (known findings are printed as
// KNOWN-FINDING lines). Exit 1: at least one `VIOLATION property=<id>
// replay=<path>` line. Exit 2: infrastructure trouble (build failure,
// watchdog, failure that does not replay, nondeterminism, schema) -- never
// dressed up as a violation and never as a pass.
package main

import (
	"bufio"
	"bytes"
	"encoding/json"
	"fmt"
	"os"
	"os/exec"
	"path/filepath"
	"regexp"
	"sort"
	"strconv"
	"strings"
	"sync"
	"time"

	"verif/instrument"
)

// verifDir and repoDir default to /verif and /repo; VERIF_DIR and VERIF_REPO
// override them (background sweeps run from a snapshot of /verif against a
// snapshot of /repo). Registered checks always use the defaults.
var (
	verifDir = envOr("VERIF_DIR", "/verif")
	repoDir  = envOr("VERIF_REPO", "/repo")
)

func envOr(k, d string) string {
	if v := os.Getenv(k); v != "" {
		return v
	}
	return d
}

type checkSpec struct {
	Prop     string
	Engine   string
	Pkg      string // package whose test binary hosts the engine
	Race     bool
	Level    string
	QuickS   int // wall-clock budget of the run phase, seconds
	ThorS    int
	Rule     string
	Assume   []string
	Real     []string
	Stub     []string
	StateDef string
}

var realCommon = []string{"all of google/pprof's packages profile and internal/{driver,report,graph,binutils,symbolizer,symbolz,transport,measurement,elfexec} (instrumented copies of the current working tree)", "html/template, encoding/json, regexp, compress/gzip, net/http client front half and httptest recorder"}
var stubCommon = []string{"kernel filesystem (simos in-memory disk with fault and crash model)", "goroutine scheduler (simrt baton scheduler driven by the choice tape)", "sync primitives' blocking behaviour (simsync model + real primitive)", "clock (simtime)", "external programs dot/addr2line/nm/objdump/browsers (simexec scripts)", "terminal, flags, output writer (plug-in seams)", "HTTP listener (handlers called directly through the HTTPServer seam)", "remote servers and the TLS layer (C16 and the C20 fetch scenario run pprof's own internal/transport over simhttp, a simulated TLS network with trusted and self-signed servers, in part of their runs; elsewhere the http.RoundTripper plug-in seam answers directly)", "terminal output writer: the engines' in-memory plugin.Writer, except C10 sessions that use pprof's own writer on the simulated disk"}

var specs = map[string]*checkSpec{
	"C02": {Prop: "C02", Engine: "c02", Pkg: "internal/driver", Level: "fault_enumeration", QuickS: 35, ThorS: 1500,
		Rule:     "restricted to fault-reachable inputs: a corpus of valid encodings (seeded generated profiles, gzip and uncompressed, plus every file under profile/testdata and internal/driver/testdata that ParseData accepts: legacy heap/growth/contention/thread text, binary CPU profiles, Java formats; <=4 KiB in the quick tier, <=64 KiB in the thorough tier) is stored on the simulated disk, damaged by one enumerated storage or stream fault, and read back through simos by the real profile.Parse; a returned profile goes through an independent validity check, CheckValid, Write->Parse, Copy and Compact, and through eleven text reports (thorough tier: every damaged input that parses; quick tier: every 8th); every 97th damaged input additionally goes through the whole tool (driver.PProf -top on the file: error or report, no panic). Each run picks one corpus entry and one fault family and enumerates that family completely for the entry: truncation at every length (stored bytes and, for gzip, the payload re-compressed); every stored byte x five masks; every payload byte x five masks behind a valid gzip wrapper; every 512/64/16-byte sector zeroed, lost or duplicated; EIO at every read call after 0/1/100 bytes; 300 (3000 thorough) seeded 2-3-fault combinations incl. maximal varints, cuts and duplicated tails; plus 1-byte short reads on the undamaged file (must change nothing). A case is distinct by (corpus entry, content hash, family) and non-trivial always (every case damages a valid encoding)",
		StateDef: "distinct (corpus entry, fault family) pairs enumerated",
		Assume:   []string{"C02 quantifies over all byte strings; a simulator has no special access to that set, so this check covers only what a valid stored profile turns into under storage and stream faults (stated restriction, DESIGN.md §3 C02); inputs unrelated to any valid encoding are not covered", "'promptly' is a 20 s wall-clock cap per parse plus the worker watchdog; a parser that loops forever makes the check exit 2, not 1"}},
	"C09": {Prop: "C09", Engine: "c09", Pkg: "internal/driver", Level: "exploration", QuickS: 40, ThorS: 1200,
		Rule:     "cases are seeded sessions of the real driver.PProf over seeded odd-but-valid profiles (0/1/2-character and non-hex build ids, empty and metacharacter strings, ids near 2^64, no mappings, unsymbolized and empty stacks, extreme values, odd label units): interactive histories of 1..14 hostile lines from a command/option grammar plus noise tokens, each followed by a usability probe, ending with quit, EOF or a terminal read error, with the completer called on seeded prefixes; command lines with seeded flag assignments; web histories of 1..10 requests with noise query strings each followed by a probe request. Per-run swarm of faults in what pprof talks to: output writer failing, object tool failing or answering unusual-but-well-formed data, dot and browsers missing or present, random disk errors (permille from the tape) on create/write/close/read/mkdir/remove. A panic in any task, handler or the completer, a deadlock, the step cap, os.Exit, or a session that stops reading its input is a violation. A case is distinct by its full line/argument/request list; all are non-trivial (each contains at least one hostile element)",
		StateDef: "distinct (handler, status) pairs / swarm configurations",
		Assume:   []string{"plug-in answers are unusual but well-formed (every symbol has a name, ranges are ordered): C09 quantifies over profiles, options, lines and query strings, not over malformed plug-in data", "a profile that cannot be fetched at all is 'reports an error'"}},
	"C12": {Prop: "C12", Engine: "c12", Pkg: "internal/driver", Level: "fault_enumeration", QuickS: 30, ThorS: 900,
		Rule:     "cases are seeded profiles (1-3 mappings incl. fake, URL, unsymbolizable and already-symbolized ones, sparse function ids, addresses at mapping edges and 0, partly symbolized locations) x symbolization mode (16 mode strings incl. force and every demangle setting) x mapping sources (symbol/symbolz URLs, non-URLs, unreachable hosts, address deltas incl. overflowing ones); the real symbolizer.Symbolizer runs against a scripted ObjTool and symbolz endpoint; the fault-free execution is recorded (N plug-in calls) and then each call k is failed in turn with every applicable failure kind (Open: error, wrong/empty build id; SourceLine: error, empty, empty names, zero lines, 6 frames; POST: transport error, 500 with and without pprof body, malformed, other addresses, truncated, partial, non-hex, empty) plus seeded 2-4-fault plans; oracle = frame condition on a deep snapshot (samples, values, labels, stack identities, addresses, mapping ranges, line tables of mappings that already carried symbols, names never emptied, unique ids, CheckValid). A case is distinct by its full description and non-trivial if the fault-free run made at least one plug-in call",
		StateDef: "distinct (mode, number of plug-in calls) pairs",
		Assume:   []string{"'already carries symbols' is read as the HasFunctions flag (the weakest reading both code paths honour)", "single faults are enumerated exhaustively per generated profile; multi-fault plans and profiles are sampled"}},
	"C20": {Prop: "C20", Engine: "c20", Pkg: "internal/driver", Race: true, Level: "exploration", QuickS: 45, ThorS: 1200,
		Rule:     "built with -race; the scheduler's baton hand-offs are invisible to the race detector (runtime.RaceDisable around the hand-off, //go:norace scheduler and simulated kernel), so the detector sees exactly the synchronisation pprof performs itself while the interleaving is dictated by the tape (random walk at sync, I/O and function-entry points, or PCT). Scenarios: 2-4 tasks Write/WriteUncompressed/Copy one shared profile (bytes must equal the sequential serialization); option get/set by writers and readers (no torn config, register linearizability by exact search); 2-6 tasks creating temp files with equal prefixes against a pre-populated directory (distinct names, nothing clobbered, registry cleaned exactly once); 2-4 concurrent web clients incl. /download and first use of the HTML templates (responses equal the solo responses on a fresh session); 2-3 clients issuing /saveconfig and /deleteconfig concurrently, optionally killed at a seeded I/O call (linearizability, acknowledged requests survive); concurrent multi-source fetch with faults (C16 oracles plus byte equality with the one-at-a-time schedule); 2-4 tasks calling SourceLine/ObjAddr on one shared binutils ObjFile backed by scripted addr2line or llvm-symbolizer line protocols on simulated pipes while another task toggles fast symbolization (each answer must equal the sequential answer for its own address), followed by concurrent SetTools and SetFastSymbolization (both must have taken effect); and, for two-task instances of the temp-file, options and tools scenarios, systematic enumeration of every schedule with at most one (quick) / two (thorough) preemptive switches at sync and I/O points. Any race report, deadlock or step-limit hang is a violation. A case is distinct by (scenario, operations, context-switch signature) and non-trivial if at least one context switch happened between the concurrent operations",
		StateDef: "distinct sets of temp-file names handed out (temp-file scenario)",
		Assume:   []string{"the race detector reports a racy pair of accesses only if both occur in the run (they need not collide); torn multi-word reads between two instructions of one statement are left to it", "the tool access scenario reaches binutils through the addr2line-path-contains-testdata escape hatch of Binutils.Open (no ELF file is parsed); fileNM is not exercised"}},
	"C16": {Prop: "C16", Engine: "c16", Pkg: "internal/driver", Level: "exploration", QuickS: 45, ThorS: 1200,
		Rule:     "cases are seeded source lists (1..6, 127..130, 255..300 sources, 0..3 bases, kinds file/URL/Fetcher) with a seeded per-source fault plan (missing, HTTP 404/500, garbage, torn body or file, invalid profile, Fetcher error, stall until the client timeout in simulated time, disk read error) run through the real driver.PProf with every fetch goroutine a simulated task under run-to-block, random-walk (sync, I/O and function-entry preemption) or PCT scheduling and seeded simulated latencies; plus a block that enumerates, for n<=3 (quick) / n<=4 (thorough) remote sources, every failing subset x every completion order. Oracles: reference model built from the generator's description of the good sources, byte equality with the sequential zero-latency schedule, byte equality with the run listing only the good sources, per-source error accounting, exit status, no deadlock/hang. A sampled case is distinct by (source list with kinds, faults and latencies, context-switch signature) and non-trivial if it has >=2 sources or bases and at least one context switch happened",
		StateDef: "distinct (n, failing-subset signature, completion-order signature) triples",
		Assume:   []string{"the http.Client timeout watcher goroutine inside net/http is not simulated; a stalled source is modelled by the transport sleeping 65 simulated seconds and returning the error class http.Client produces", "sources are tiny profiles over a shared universe of 6 functions and 3 label sets with identical sample types"}},
	"C10": {Prop: "C10", Engine: "c10", Pkg: "internal/driver", Level: "exploration", QuickS: 45, ThorS: 1200,
		Rule:     "cases are seeded interactive histories (commands with arguments interleaved with option assignments), sequential web histories (incl. saveconfig/deleteconfig) and concurrent web mixes (2-4 clients under random-walk/PCT scheduling with function-entry preemption) over seeded profiles; every step's output file bytes, UI transcript or HTTP status+body is compared with the same step on a FRESH session (simulated process boundary) that executed only the preceding option assignments. A case is distinct by its full line/request list (and context-switch signature for concurrent mixes) and non-trivial if a profile-mutating report (filters, hide/show, tag filters, aggregation, label frames) preceded another report, resp. at least one context switch happened inside the concurrent requests",
		StateDef: "distinct (option-assignment state, command kind) pairs compared / (handler, status) pairs",
		Assume:   []string{"process-wide state that a real process builds once (sample_index help text, shortcut table) is reset by the simulated process boundary", "outputs are always redirected so that temp-file names and os.Stdout do not enter the comparison"}},
	"C08": {Prop: "C08", Engine: "c08", Pkg: "internal/driver", Level: "exploration", QuickS: 45, ThorS: 1200,
		Rule:     "cases are (tie-rich seeded profiles: values from {-2,-1,1,2}, equal names at different addresses, several labels, inlining; 1-3 sources, optional -base/-diff_base drawn from the same pool) x (report command with seeded options, or web request); each case runs once with canonical map order and sequential fetch as reference and then 6 (quick) / 24 (thorough) times with every range-over-map permuted by a seeded policy (reverse, rotate, shuffle, mixed) and, for multi-source cases, a seeded fetch interleaving; oracle = byte equality of output and error text; plus the same command three times inside one interactive session. A case is distinct by (profile bytes, command line) and non-trivial if at least two permuted runs actually permuted a map with >=2 keys and the reference output is non-empty",
		StateDef: "distinct command lines / web requests exercised",
		Assume:   []string{"pointer-keyed maps get their canonical order from first-insertion stamps (instrumented inserts); unstamped pointer keys are counted in stats.unstamped and probes.unstamped_pointer_keys", "the scripted dot tool is a deterministic function of its whole input"}},
	"C19": {Prop: "C19", Engine: "c19", Pkg: "internal/driver", Level: "fault_enumeration", QuickS: 50, ThorS: 1200,
		Rule:     "cases are seeded histories of save/delete/render/clone requests against the real web handlers in three modes: sequential histories checked step by step against an independent model of settings.json; one operation after a seeded prefix re-executed once per crash point (before/after every simulated system call and after every byte of every write) and per I/O error (ENOSPC/EIO/EACCES, short writes at every byte), each followed by restart and a liveness probe; 2-3 concurrent clients under the seeded scheduler checked by exact linearizability search, optionally killed at a seeded I/O call (acknowledged requests must survive, in-flight ones may or may not have taken effect); and, for two clients with one request each, systematic enumeration of EVERY schedule with at most one (quick) / two (thorough) preemptive context switches at sync and I/O points (stateless depth-first search over the choice tape; probes.schedule_space_exhausted_* counts the workloads whose bounded space was run completely). A case is distinct by (mode, initial state, operations, context-switch signature) and non-trivial if at least one saved configuration existed or was created and, for the fault mode, at least one fault fired, for the concurrent mode, at least two requests overlapped",
		StateDef: "distinct settings.json states (decoded by the engine's own reader) observed after an operation, fault or crash",
		Assume:   []string{"kill model: completed system calls survive, the interrupted write keeps its first k bytes; power loss (un-fsynced data vanishing) is not modelled because C19 speaks of pprof being killed and of failing writes", "URL round trip is checked with the process configuration at its defaults (makeURL elides defaults relative to the current configuration by design)", "os.Rename is atomic (POSIX)"}},
}

func main() {
	if len(os.Args) < 2 {
		usage()
	}
	switch os.Args[1] {
	case "instrument":
		if len(os.Args) < 3 {
			usage()
		}
		st, err := runInstrument(os.Args[2])
		if err != nil {
			fmt.Fprintln(os.Stderr, err)
			os.Exit(2)
		}
		st.Sites = nil
		b, _ := json.MarshalIndent(st, "", " ")
		fmt.Println(string(b))
	case "check":
		if len(os.Args) < 3 {
			usage()
		}
		tier := os.Getenv("VERIF_TIER")
		for i := 3; i < len(os.Args); i++ {
			if os.Args[i] == "--tier" && i+1 < len(os.Args) {
				tier = os.Args[i+1]
			}
		}
		if tier == "" {
			tier = "quick"
		}
		os.Exit(check(os.Args[2], tier))
	case "replay":
		if len(os.Args) < 3 {
			usage()
		}
		os.Exit(replayCmd(os.Args[2]))
	default:
		usage()
	}
}

func usage() {
	fmt.Fprintln(os.Stderr, "usage: verif check <property> [--tier quick|thorough] | verif replay <file> | verif instrument <dir>")
	os.Exit(2)
}

func goEnv() []string {
	env := os.Environ()
	env = append(env, "GOFLAGS=-mod=mod", "GOPROXY=off", "GOSUMDB=off", "GOTOOLCHAIN=local")
	return env
}

func enginePkgs() map[string]string {
	// engines/<dir> -> repo package dir
	return map[string]string{"driver": "internal/driver", "binutils": "internal/binutils"}
}

func runInstrument(out string) (*instrument.Stats, error) {
	inject := map[string]string{}
	var hide []string
	for dir, pkg := range enginePkgs() {
		files, _ := filepath.Glob(filepath.Join(verifDir, "engines", dir, "*_test.go"))
		if len(files) == 0 {
			continue
		}
		hide = append(hide, pkg)
		for _, f := range files {
			inject[filepath.Join(pkg, "verif_"+filepath.Base(f))] = f
		}
	}
	return instrument.Run(instrument.Options{Repo: repoDir, SimDir: filepath.Join(verifDir, "sim"), OutDir: out, HideTest: hide, Inject: inject})
}

// build instruments the current tree and builds the test binary for pkg.
func build(work, pkg string, race bool) (string, *instrument.Stats, error) {
	st, err := runInstrument(work)
	if err != nil {
		return "", nil, fmt.Errorf("instrument: %v", err)
	}
	bin := filepath.Join(work, strings.ReplaceAll(pkg, "/", "_")+".test")
	args := []string{"test", "-c", "-tags", "verif", "-vet=off", "-overlay=" + st.Overlay, "-o", bin}
	if race {
		args = append(args, "-race")
	}
	args = append(args, "./"+pkg)
	cmd := exec.Command("go", args...)
	cmd.Dir = repoDir
	cmd.Env = goEnv()
	out, err := cmd.CombinedOutput()
	if err != nil {
		return "", st, fmt.Errorf("go %s: %v\n%s", strings.Join(args, " "), err, out)
	}
	return bin, st, nil
}

type violation struct {
	Class  string `json:"class"`
	Detail string `json:"detail"`
}

type record struct {
	Engine  string           `json:"engine"`
	Seed    uint64           `json:"seed"`
	OK      bool             `json:"ok"`
	Viol    *violation       `json:"violation,omitempty"`
	Tape    []uint32         `json:"tape,omitempty"`
	MinTape []uint32         `json:"min_tape,omitempty"`
	Trace   []string         `json:"trace,omitempty"`
	Shrunk  int              `json:"shrink_execs,omitempty"`
	TapeLen int              `json:"tape_len"`
	EvHash  string           `json:"ev_hash"`
	Digest  string           `json:"digest"`
	Execs   int64            `json:"execs"`
	Steps   int64            `json:"steps"`
	SimNs   int64            `json:"sim_ns"`
	Probes  map[string]int64 `json:"probes,omitempty"`
	Faults  map[string]int64 `json:"faults,omitempty"`
	Stats   map[string]int64 `json:"stats,omitempty"`
	NonTriv []string         `json:"nontrivial,omitempty"`
	States  []string         `json:"states,omitempty"`
	SwSigs  int              `json:"switch_sigs"`
	Sample  interface{}      `json:"sample,omitempty"`
	WallMs  float64          `json:"wall_ms"`
	Drawn   map[string]int64 `json:"drawn,omitempty"`
}

type replayFile struct {
	Property string     `json:"property"`
	Engine   string     `json:"engine"`
	Seed     uint64     `json:"seed"`
	Tier     string     `json:"tier"`
	Tape     []uint32   `json:"tape"`
	Viol     *violation `json:"violation"`
	Digest   string     `json:"digest"`
	Trace    []string   `json:"trace"`
	Race     bool       `json:"race,omitempty"`
	Pkg      string     `json:"pkg"`
	BySeed   bool       `json:"by_seed,omitempty"`
}

type knownFinding struct {
	Property string `json:"property"`
	Class    string `json:"class"`
	Match    string `json:"match"` // regexp on the violation detail
	What     string `json:"what"`
}

type knownFile struct {
	Known []knownFinding `json:"known"`
	Fixed []string       `json:"fixed"`
}

func loadKnown() knownFile {
	var kf knownFile
	data, err := os.ReadFile(filepath.Join(verifDir, "known_findings.json"))
	if err == nil {
		if err := json.Unmarshal(data, &kf); err != nil {
			fmt.Fprintln(os.Stderr, "known_findings.json:", err)
			os.Exit(2)
		}
	}
	return kf
}

func runWorker(bin string, env []string, timeout time.Duration) ([]byte, []byte, error) {
	cmd := exec.Command(bin, "-test.run", "^TestVerifWorker$", "-test.timeout", "0")
	cmd.Env = append(os.Environ(), env...)
	var out, errb bytes.Buffer
	cmd.Stdout, cmd.Stderr = &out, &errb
	if err := cmd.Start(); err != nil {
		return nil, nil, err
	}
	done := make(chan error, 1)
	go func() { done <- cmd.Wait() }()
	select {
	case err := <-done:
		if ee, ok := err.(*exec.ExitError); ok && ee.ExitCode() == 66 && !bytes.Contains(errb.Bytes(), []byte("fatal error:")) && !bytes.Contains(errb.Bytes(), []byte("panic:")) {
			// 66 is the race detector's exit code for "ran to the end, races were
			// reported on the way": the reports are in the records already.
			err = nil
		}
		return out.Bytes(), errb.Bytes(), err
	case <-time.After(timeout):
		cmd.Process.Kill()
		<-done
		return out.Bytes(), errb.Bytes(), fmt.Errorf("worker watchdog: no exit after %v", timeout)
	}
}

func readRecords(path string) ([]record, error) {
	f, err := os.Open(path)
	if err != nil {
		return nil, err
	}
	defer f.Close()
	var out []record
	sc := bufio.NewScanner(f)
	sc.Buffer(make([]byte, 1<<20), 1<<28)
	for sc.Scan() {
		line := sc.Bytes()
		if len(line) == 0 || line[0] != '{' {
			continue
		}
		var r record
		if err := json.Unmarshal(line, &r); err != nil {
			return out, fmt.Errorf("%s: %v", path, err)
		}
		out = append(out, r)
	}
	return out, sc.Err()
}

// replayOnce runs a replay file in a fresh process and returns the record.
func replayOnce(bin, file string, gomaxprocs int) (*record, error) {
	outp := file + fmt.Sprintf(".out.%d.%d", os.Getpid(), time.Now().UnixNano())
	defer os.Remove(outp)
	env := []string{"VERIF_ENGINE=" + engineOfReplay(file), "VERIF_REPLAY=" + file, "VERIF_OUT=" + outp, "VERIF_DICT=" + filepath.Join(filepath.Dir(bin), "dict.json"),
		"GORACE=halt_on_error=0 log_path=" + outp + ".race", "VERIF_RACELOG=" + outp + ".race"}
	defer func() {
		if ms, _ := filepath.Glob(outp + ".race*"); ms != nil {
			for _, f := range ms {
				os.Remove(f)
			}
		}
	}()
	if gomaxprocs > 0 {
		env = append(env, "GOMAXPROCS="+strconv.Itoa(gomaxprocs))
	}
	_, errb, err := runWorker(bin, env, 10*time.Minute)
	recs, rerr := readRecords(outp)
	if len(recs) == 0 {
		if cls := runtimeFatal(errb); cls != "" {
			return &record{Engine: engineOfReplay(file), OK: false, Digest: "fatal", Viol: &violation{Class: "fatal:" + cls, Detail: "the Go runtime aborted the process:\n" + fatalExcerpt(errb)}}, nil
		}
	}
	if rerr != nil || len(recs) != 1 {
		return nil, fmt.Errorf("replay of %s produced no record (%v, %v): %s", file, err, rerr, tail(errb, 2000))
	}
	return &recs[0], nil
}

// runtimeFatal recognises, in a dead worker's stderr, the unrecoverable
// aborts of the Go runtime that code under test can cause. Running out of
// memory and "all goroutines are asleep" are deliberately not in the list:
// they may as well be trouble of the machine or the harness and stay exit 2.
func runtimeFatal(stderr []byte) string {
	for _, line := range strings.Split(string(stderr), "\n") {
		line = strings.TrimSpace(line)
		for _, p := range []string{"fatal error: stack overflow", "fatal error: sync: ", "fatal error: concurrent map "} {
			if strings.HasPrefix(line, p) {
				return strings.TrimPrefix(line, "fatal error: ")
			}
		}
	}
	return ""
}

// fatalExcerpt returns the abort message and the first goroutine's stack.
func fatalExcerpt(stderr []byte) string {
	s := string(stderr)
	i := strings.Index(s, "fatal error: ")
	if j := strings.LastIndex(s[:max(i, 0)], "runtime: goroutine stack exceeds"); j >= 0 {
		i = j
	}
	if i < 0 {
		i = 0
	}
	return short(s[i:], 2500)
}

func engineOfReplay(file string) string {
	data, _ := os.ReadFile(file)
	var rf replayFile
	json.Unmarshal(data, &rf)
	return rf.Engine
}

func tail(b []byte, n int) string {
	if len(b) > n {
		b = b[len(b)-n:]
	}
	return string(b)
}

func check(prop, tier string) int {
	spec := specs[prop]
	if spec == nil {
		fmt.Fprintf(os.Stderr, "no check for property %s\n", prop)
		return 2
	}
	start := time.Now()
	seed := uint64(1)
	if s := os.Getenv("VERIF_SEED"); s != "" {
		if v, err := strconv.ParseUint(s, 10, 64); err == nil {
			seed = v
		} else if v, err := strconv.ParseInt(s, 10, 64); err == nil {
			seed = uint64(v)
		}
	}
	fmt.Printf("VERIF_SEED=%d property=%s tier=%s\n", seed, prop, tier)
	work := filepath.Join(verifDir, ".work", fmt.Sprintf("%s-%d", prop, os.Getpid()))
	os.MkdirAll(work, 0755)
	defer os.RemoveAll(work)
	os.MkdirAll(filepath.Join(verifDir, "evidence"), 0755)
	os.MkdirAll(filepath.Join(verifDir, "replays"), 0755)

	bin, ist, err := build(work, spec.Pkg, spec.Race)
	if err != nil {
		fmt.Fprintln(os.Stderr, "BUILD FAILED (infrastructure, not a verdict):", err)
		return 2
	}
	buildS := time.Since(start).Seconds()

	budget := spec.QuickS
	if tier == "thorough" {
		budget = spec.ThorS
	}
	if s := os.Getenv("VERIF_BUDGET_S"); s != "" {
		if v, err := strconv.Atoi(s); err == nil {
			budget = v
		}
	}
	workers := 16
	if s := os.Getenv("VERIF_WORKERS"); s != "" {
		if v, err := strconv.Atoi(s); err == nil && v > 0 {
			workers = v
		}
	}
	deadline := time.Now().Add(time.Duration(budget) * time.Second)
	runStart := time.Now()
	var wg sync.WaitGroup
	type wres struct {
		recs   []record
		stderr []byte
		err    error
		first  uint64
	}
	results := make([]wres, workers)
	const chunk = 10_000_000
	for w := 0; w < workers; w++ {
		wg.Add(1)
		go func(w int) {
			defer wg.Done()
			first := seed*1_000_000_000 + uint64(w)*chunk
			outp := filepath.Join(work, fmt.Sprintf("w%d.jsonl", w))
			env := []string{"VERIF_ENGINE=" + spec.Engine, fmt.Sprintf("VERIF_SEEDS=%d:%d", first, chunk), "VERIF_OUT=" + outp,
				"VERIF_TIER=" + tier, fmt.Sprintf("VERIF_DEADLINE=%d", deadline.Unix()), "GOMAXPROCS=2", "VERIF_DICT=" + filepath.Join(work, "dict.json")}
			if spec.Race {
				rl := filepath.Join(work, fmt.Sprintf("race.w%d", w))
				env = append(env, "GORACE=halt_on_error=0 log_path="+rl, "VERIF_RACELOG="+rl)
			}
			_, errb, err := runWorker(bin, env, time.Duration(budget)*time.Second+15*time.Minute)
			recs, rerr := readRecords(outp)
			if err == nil {
				err = rerr
			}
			results[w] = wres{recs, errb, err, first}
		}(w)
	}
	wg.Wait()
	runS := time.Since(runStart).Seconds()

	var all []record
	infra := false
	for w, r := range results {
		all = append(all, r.recs...)
		if r.err != nil {
			if n := len(r.recs); n > 0 && r.recs[n-1].Digest == "stall" {
				fmt.Fprintf(os.Stderr, "worker %d stalled at seed %d (%s); the seed is re-run below\n", w, r.recs[n-1].Seed, r.recs[n-1].Viol.Class)
				continue
			}
			next := r.first + uint64(len(r.recs))
			if cls := runtimeFatal(r.stderr); cls != "" {
				// The Go runtime aborted the process inside the code under test
				// (unbounded recursion, misuse of a sync primitive, unsynchronised
				// map access): a finding about that seed, not trouble with the
				// machinery - provided it happens again when the seed is re-run.
				fmt.Fprintf(os.Stderr, "worker %d aborted by the Go runtime at seed %d (%s); the seed is re-run below\n", w, next, cls)
				all = append(all, record{Engine: spec.Engine, Seed: next, OK: false, Digest: "fatal",
					Viol: &violation{Class: "fatal:" + cls, Detail: "the Go runtime aborted the process:\n" + fatalExcerpt(r.stderr)}})
				continue
			}
			fmt.Fprintf(os.Stderr, "worker %d died (%v) while running seed %d:\n%s\n", w, r.err, next, tail(r.stderr, 3000))
			infra = true
		}
	}
	if len(all) == 0 {
		fmt.Fprintln(os.Stderr, "no runs completed")
		return 2
	}

	// ---- violations: replay files, confirmation, known findings ----
	known := loadKnown()
	exit := 0
	violCount := 0
	unconfirmedStalls := 0
	spuriousClass := map[string]bool{}
	knownCount := 0
	seenClass := map[string]int{}
	var violSamples []interface{}
	for i := range all {
		r := &all[i]
		if r.OK {
			continue
		}
		violCount++
		seenClass[r.Viol.Class]++
		if seenClass[r.Viol.Class] > 2 {
			continue // enough replay files for this class
		}
		tape := r.MinTape
		if tape == nil {
			tape = r.Tape
		}
		rf := replayFile{Property: prop, Engine: spec.Engine, Seed: r.Seed, Tier: tier, Tape: tape, Viol: r.Viol, Digest: r.Digest, Trace: r.Trace, Race: spec.Race, Pkg: spec.Pkg, BySeed: r.Digest == "stall" || r.Digest == "fatal"}
		path := filepath.Join(verifDir, "replays", fmt.Sprintf("%s-%d.json", prop, r.Seed))
		data, _ := json.MarshalIndent(rf, "", " ")
		if err := os.WriteFile(path, data, 0644); err != nil {
			fmt.Fprintln(os.Stderr, err)
			return 2
		}
		// Must reproduce exactly, twice, in fresh processes.
		okReplay, spurious := true, false
		for k := 0; k < 2; k++ {
			rr, err := replayOnce(bin, path, []int{1, 8}[k])
			if err != nil {
				fmt.Fprintln(os.Stderr, err)
				okReplay = false
				break
			}
			if r.Digest == "stall" && rr.OK {
				// The seed runs to the end in a fresh process: the worker was
				// starved or suspended, not hung. Counted, not reported.
				fmt.Fprintf(os.Stderr, "seed %d: the stall of the worker does not recur when the seed is re-run; counted as unconfirmed_stalls\n", r.Seed)
				unconfirmedStalls++
				spurious = true
				spuriousClass[r.Viol.Class] = true
				break
			}
			// The race detector reports each pair of stacks once per process:
			// which of several races of one execution it names first depends on
			// what earlier runs of the same worker had already reported. A race
			// finding is therefore confirmed by any race report under the same tape.
			// For the same reason a fresh process may report the race where the
			// worker, having reported it for an earlier seed, saw only its
			// consequence (a panic, a wrong answer): that confirms the failure too.
			bothRaces := !rr.OK && strings.HasPrefix(rr.Viol.Class, "data-race:") && spec.Race
			if !bothRaces && (rr.OK || rr.Viol.Class != r.Viol.Class || rr.Digest != r.Digest) {
				// (a stall is confirmed by stalling again in the same function: class and the "stall" digest)
				fmt.Fprintf(os.Stderr, "replay %d of %s diverged: ok=%v class=%v digest=%s want class=%s digest=%s\n", k, path, rr.OK, rr.Viol, rr.Digest, r.Viol.Class, r.Digest)
				okReplay = false
				break
			}
		}
		if spurious {
			violCount--
			continue
		}
		if !okReplay {
			fmt.Fprintf(os.Stderr, "seed %d: failure does not replay exactly: uncontrolled nondeterminism in the machinery, not reported as a violation\n", r.Seed)
			infra = true
			continue
		}
		if kf := matchKnown(known, prop, r.Viol); kf != nil {
			knownCount++
			fmt.Printf("KNOWN-FINDING: property=%s %s (class %s, seed %d, replay=%s)\n", prop, kf.What, r.Viol.Class, r.Seed, path)
			continue
		}
		fmt.Printf("VIOLATION property=%s replay=%s\n", prop, path)
		fmt.Printf("  class: %s\n  %s\n", r.Viol.Class, strings.ReplaceAll(short(r.Viol.Detail, 1500), "\n", "\n  "))
		for _, t := range r.Trace {
			fmt.Printf("  | %s\n", short(t, 300))
		}
		violSamples = append(violSamples, map[string]interface{}{"seed": r.Seed, "class": r.Viol.Class, "detail": short(r.Viol.Detail, 600), "trace": r.Trace, "replay": path})
		exit = 1
	}
	// classes beyond the first two per class still count
	for i := range all {
		r := &all[i]
		if !r.OK && seenClass[r.Viol.Class] > 2 && !spuriousClass[r.Viol.Class] && matchKnown(known, prop, r.Viol) == nil {
			exit = 1
		}
	}

	// ---- determinism self-check on a sample of seeds ----
	nDet := 24
	if tier == "thorough" {
		nDet = 200
	}
	detChecked, detBad := 0, 0
	{
		// Spread the sample over workers.
		var sample []record
		per := nDet/workers + 1
		for _, r := range results {
			n := 0
			for _, rec := range r.recs {
				if rec.OK && rec.WallMs < 1500 && n < per {
					sample = append(sample, rec)
					n++
				}
			}
		}
		if len(sample) > nDet {
			sample = sample[:nDet]
		}
		var mu sync.Mutex
		var dwg sync.WaitGroup
		sem := make(chan struct{}, 16)
		for i, rec := range sample {
			dwg.Add(1)
			go func(i int, rec record) {
				defer dwg.Done()
				sem <- struct{}{}
				defer func() { <-sem }()
				outp := filepath.Join(work, fmt.Sprintf("det%d.jsonl", i))
				env := []string{"VERIF_ENGINE=" + spec.Engine, fmt.Sprintf("VERIF_SEEDS=%d:1", rec.Seed), "VERIF_OUT=" + outp, "VERIF_TIER=" + tier, "VERIF_DICT=" + filepath.Join(work, "dict.json"),
					fmt.Sprintf("GOMAXPROCS=%d", []int{1, 4, 16}[i%3]), "GORACE=halt_on_error=0 log_path=" + outp + ".race", "VERIF_RACELOG=" + outp + ".race"}
				_, errb, err := runWorker(bin, env, 10*time.Minute)
				recs, _ := readRecords(outp)
				mu.Lock()
				defer mu.Unlock()
				detChecked++
				if err != nil || len(recs) != 1 || recs[0].Digest != rec.Digest || recs[0].EvHash != rec.EvHash {
					detBad++
					got := "none"
					if len(recs) == 1 {
						got = recs[0].Digest + "/" + recs[0].EvHash
					}
					fmt.Fprintf(os.Stderr, "determinism self-check: seed %d gave %s, first run gave %s/%s (%v) %s\n", rec.Seed, got, rec.Digest, rec.EvHash, err, tail(errb, 500))
				}
			}(i, rec)
		}
		dwg.Wait()
	}
	if detBad > 0 {
		infra = true
	}

	// ---- evidence ----
	ev := aggregate(spec, prop, tier, seed, all, ist)
	cov := ev["coverage"].(map[string]interface{})
	cov["determinism_selfcheck"] = map[string]interface{}{"seeds_rerun_in_fresh_processes": detChecked, "gomaxprocs": []int{1, 4, 16}, "divergent": detBad}
	cov["runs_per_hour"] = int64(float64(len(all)) / runS * 3600)
	cov["run_phase_s"] = runS
	cov["build_s"] = buildS
	cov["workers"] = workers
	if len(violSamples) > 0 {
		cov["violation_samples"] = violSamples
	}
	cov["known_findings_matched"] = knownCount
	cov["unconfirmed_stalls"] = unconfirmedStalls
	ev["violations"] = violCount - knownCount
	ev["wall_s"] = time.Since(start).Seconds()
	data, _ := json.MarshalIndent(ev, "", " ")
	evPath := filepath.Join(verifDir, "evidence", prop+".json")
	if err := os.WriteFile(evPath, data, 0644); err != nil {
		fmt.Fprintln(os.Stderr, err)
		return 2
	}
	fmt.Printf("runs=%d executions=%d violations=%d known=%d distinct_nontrivial=%v determinism=%d/%d wall=%.1fs evidence=%s\n",
		len(all), cov["executions"], violCount, knownCount, cov["distinct_nontrivial"], detChecked-detBad, detChecked, time.Since(start).Seconds(), evPath)
	if exit == 1 {
		return 1
	}
	if infra {
		fmt.Fprintln(os.Stderr, "INFRASTRUCTURE PROBLEM (see above): result is not a verdict")
		return 2
	}
	return 0
}

func matchKnown(k knownFile, prop string, v *violation) *knownFinding {
	for i := range k.Known {
		kf := &k.Known[i]
		if kf.Property != prop || kf.Class != v.Class {
			continue
		}
		if kf.Match == "" {
			return kf
		}
		if re, err := regexp.Compile(kf.Match); err == nil && re.MatchString(v.Detail) {
			return kf
		}
	}
	return nil
}

func short(s string, n int) string {
	if len(s) <= n {
		return s
	}
	return s[:n] + fmt.Sprintf("...(+%d bytes)", len(s)-n)
}

func aggregate(spec *checkSpec, prop, tier string, seed uint64, all []record, ist *instrument.Stats) map[string]interface{} {
	probes := map[string]int64{}
	faults := map[string]int64{}
	stats := map[string]int64{}
	drawn := map[string]int64{}
	nontriv := map[string]bool{}
	states := map[string]bool{}
	var execs, steps, simNs int64
	swsigs := 0
	var samples []interface{}
	sampleModes := map[string]int{}
	for _, r := range all {
		execs += r.Execs
		steps += r.Steps
		simNs += r.SimNs
		swsigs += r.SwSigs
		for k, v := range r.Probes {
			probes[k] += v
		}
		for k, v := range r.Faults {
			faults[k] += v
		}
		for k, v := range r.Stats {
			stats[k] += v
		}
		for k, v := range r.Drawn {
			drawn[k] += v
		}
		for _, k := range r.NonTriv {
			nontriv[k] = true
		}
		for _, k := range r.States {
			states[k] = true
		}
		if r.Sample != nil && len(samples) < 12 {
			mode := ""
			if m, ok := r.Sample.(map[string]interface{}); ok {
				mode, _ = m["mode"].(string)
			}
			if sampleModes[mode] < 3 {
				sampleModes[mode]++
				samples = append(samples, map[string]interface{}{"seed": r.Seed, "case": r.Sample})
			}
		}
	}
	zeroProbes := []string{}
	for k, v := range probes {
		if v == 0 {
			zeroProbes = append(zeroProbes, k)
		}
	}
	sort.Strings(zeroProbes)
	cov := map[string]interface{}{
		"evaluations":                    len(all),
		"executions":                     execs,
		"distinct_nontrivial":            len(nontriv),
		"rule":                           spec.Rule,
		"samples":                        samples,
		"scheduling_points":              steps,
		"simulated_time_s":               float64(simNs) / 1e9,
		"simulated_time_note":            "pprof hardly uses time; simulated time is reported for completeness and is not a meaningful coverage measure for this code",
		"faults_fired":                   faults,
		"probes":                         probes,
		"stats":                          stats,
		"tape_choices_by_kind":           drawn,
		"distinct_interleavings":         swsigs,
		"distinct_interleavings_measure": "distinct hashes of the sequence of (step, task) context switches at sync/I-O/preemption points, counted per run and summed",
		"distinct_states":                len(states),
		"distinct_states_measure":        spec.StateDef,
		"real_components":                realCommon,
		"stub_components":                stubCommon,
		"instrumentation": map[string]interface{}{"files": ist.Files, "import_swaps": ist.ImportSwaps, "go_statements": ist.GoStmts, "map_ranges": ist.MapRanges,
			"map_range_key_types": ist.MapRangeKeys, "pointer_key_stamps": ist.Stamps, "function_entry_yields": ist.Yields, "reinit_vars": ist.ReinitVars, "channel_ops": ist.ChanOps, "selects": ist.Selects, "auto_dictionary_strings": ist.DictStrings, "auto_dictionary_ints": ist.DictInts},
		"exhaustive": false,
	}
	return map[string]interface{}{
		"property_id": prop,
		"tier":        tier,
		"seed":        int64(seed),
		"level":       spec.Level,
		"coverage":    cov,
		"assumptions": append([]string{"a clean batch is evidence, not proof: schedules, fault plans and histories are sampled (single-fault sub-spaces named in the rule are enumerated per explored operation)", "context switches happen at sync operations, I/O calls and function entries, not between arbitrary instructions"}, spec.Assume...),
	}
}

func replayCmd(file string) int {
	data, err := os.ReadFile(file)
	if err != nil {
		fmt.Fprintln(os.Stderr, err)
		return 2
	}
	var rf replayFile
	if err := json.Unmarshal(data, &rf); err != nil {
		fmt.Fprintln(os.Stderr, err)
		return 2
	}
	work := filepath.Join(verifDir, ".work", fmt.Sprintf("replay-%d", os.Getpid()))
	os.MkdirAll(work, 0755)
	defer os.RemoveAll(work)
	bin, _, err := build(work, rf.Pkg, rf.Race)
	if err != nil {
		fmt.Fprintln(os.Stderr, "BUILD FAILED:", err)
		return 2
	}
	abs, _ := filepath.Abs(file)
	rr, err := replayOnce(bin, abs, 0)
	if err != nil {
		fmt.Fprintln(os.Stderr, err)
		return 2
	}
	if rr.OK {
		fmt.Printf("replay of %s: no violation on the current tree (recorded: %s)\n", file, rf.Viol.Class)
		return 0
	}
	fmt.Printf("VIOLATION property=%s replay=%s\n  class: %s\n  %s\n", rf.Property, file, rr.Viol.Class, strings.ReplaceAll(short(rr.Viol.Detail, 3000), "\n", "\n  "))
	for _, t := range rr.Trace {
		fmt.Printf("  | %s\n", short(t, 400))
	}
	if rr.Digest == rf.Digest {
		fmt.Println("  digest matches the recorded failure exactly")
	} else {
		fmt.Printf("  digest %s differs from the recorded %s (the tree or the machinery changed since)\n", rr.Digest, rf.Digest)
	}
	return 1
}
