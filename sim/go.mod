module github.com/google/pprof/internal/verifsim

go 1.23
