// Package simioutil has the API of io/ioutil over the simulated disk.
package simioutil

import (
	"io"
	"io/fs"

	os "github.com/google/pprof/internal/verifsim/simos"
)

var (
	Discard   = io.Discard
	ReadAll   = io.ReadAll
	NopCloser = io.NopCloser
)

func ReadFile(name string) ([]byte, error) { return os.ReadFile(name) }
func WriteFile(name string, data []byte, perm fs.FileMode) error {
	return os.WriteFile(name, data, perm)
}
func TempFile(dir, pattern string) (*os.File, error) { return os.CreateTemp(dir, pattern) }
func TempDir(dir, pattern string) (string, error)    { return os.MkdirTemp(dir, pattern) }
func ReadDir(name string) ([]fs.FileInfo, error) {
	ents, err := os.ReadDir(name)
	var out []fs.FileInfo
	for _, e := range ents {
		fi, _ := e.Info()
		out = append(out, fi)
	}
	return out, err
}
