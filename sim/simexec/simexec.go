// Package simexec has the API of package os/exec as far as pprof uses it.
// No process is ever started: programs are scripted by the harness. A program
// that is not registered behaves like a tool that is not installed.
package simexec

import (
	"bytes"
	"context"
	"errors"
	"io"
	"os"
	"os/exec"
	"strings"
	"syscall"
	"time"

	"github.com/google/pprof/internal/verifsim/simrt"
)

type (
	Error     = exec.Error
	ExitError = exec.ExitError
)

var (
	ErrNotFound  = exec.ErrNotFound
	ErrDot       = exec.ErrDot
	ErrWaitDelay = exec.ErrWaitDelay
)

// Die, returned by a LineSession as an output line, makes the scripted
// process crash at that point of its answer.
const Die = "\x00<process dies>"

// LineSession is an interactive line-oriented tool (addr2line, llvm-symbolizer).
// Line must be a pure function of its input: it may be called from any task.
type LineSession interface {
	Line(in string) []string
}

// Program scripts one executable.
type Program struct {
	// Batch tools: run to completion over the whole stdin.
	Batch func(args []string, stdin []byte) (stdout, stderr []byte, exitCode int)
	// Interactive tools: one session per started process.
	Session func(args []string) LineSession
}

var programs = map[string]*Program{}

// Register installs (or with nil removes) a scripted program. Not to be
// called during a run.
func Register(name string, p *Program) {
	if p == nil {
		delete(programs, name)
		return
	}
	programs[name] = p
}

// ResetPrograms removes all scripted programs and fault settings.
func ResetPrograms() {
	programs = map[string]*Program{}
	setFaults(0, nil)
}

// Exec fault kinds.
const (
	XNone    = iota
	XMissing // Start fails: executable file not found
	XExit1   // the tool runs, prints nothing and exits with status 1
	XGarbage // the tool prints garbage and exits 0
)

// ExecFault addresses the n-th started command of the run.
type ExecFault struct {
	At   int64
	Kind int
}

type state struct {
	plan    []ExecFault
	rate    int
	started int64
	fired   [4]int64
	byName  []string
	nName   int
}

var st state

//go:norace
func setFaults(permille int, plan []ExecFault) {
	st.rate = permille
	st.plan = make([]ExecFault, len(plan))
	for i := range plan {
		st.plan[i] = plan[i]
	}
	st.started = 0
	for i := range st.fired {
		st.fired[i] = 0
	}
}

// SetFaults installs the exec fault plan for the next run.
func SetFaults(permille int, plan []ExecFault) { setFaults(permille, plan) }

// Fired returns how often each exec fault kind fired.
//
//go:norace
func Fired() (missing, exit1, garbage, started int64) {
	return st.fired[XMissing], st.fired[XExit1], st.fired[XGarbage], st.started
}

//go:norace
func decide() int {
	idx := st.started
	st.started++
	kind := XNone
	for i := 0; i < len(st.plan); i++ {
		if st.plan[i].At == idx {
			kind = st.plan[i].Kind
		}
	}
	if kind == XNone && st.rate > 0 && simrt.Active() && !simrt.Aborting() {
		t := simrt.T()
		if t.Choose(simrt.KFault, 1000) >= 1000-st.rate {
			kind = 1 + t.Choose(simrt.KFault, 3)
		}
	}
	st.fired[kind]++
	return kind
}

// Cmd mirrors exec.Cmd.
type Cmd struct {
	Path         string
	Args         []string
	Env          []string
	Dir          string
	Stdin        io.Reader
	Stdout       io.Writer
	Stderr       io.Writer
	ExtraFiles   []*os.File
	Process      *os.Process
	ProcessState *os.ProcessState
	Err          error
	Cancel       func() error
	WaitDelay    time.Duration

	prog     *Program
	fault    int
	started  bool
	finished bool
	inPipe   *pipeW
	outPipe  *pipeR
	sess     LineSession
	waitErr  error
	died     bool // a session answered Die
}

// The scripted process's state belongs to the simulated kernel, not to the
// program under test: like the rest of the kernel it is invisible to the
// race detector.
//
//go:norace
func (c *Cmd) setDied() { c.died = true }

//go:norace
func (c *Cmd) hasDied() bool { return c.died }

func Command(name string, arg ...string) *Cmd {
	return &Cmd{Path: name, Args: append([]string{name}, arg...)}
}

func CommandContext(ctx context.Context, name string, arg ...string) *Cmd {
	return Command(name, arg...)
}

func LookPath(file string) (string, error) {
	simrt.Point("lookpath", 0)
	if _, ok := programs[baseName(file)]; ok {
		return file, nil
	}
	return "", &Error{Name: file, Err: ErrNotFound}
}

func baseName(p string) string {
	if i := strings.LastIndex(p, "/"); i >= 0 {
		return p[i+1:]
	}
	return p
}

func (c *Cmd) String() string { return strings.Join(c.Args, " ") }

func (c *Cmd) Environ() []string { return c.Env }

type exitErr struct{ code int }

func (e *exitErr) Error() string { return "exit status " + string(rune('0'+e.code)) }

func (c *Cmd) Start() error {
	if c.started {
		return errors.New("exec: already started")
	}
	simrt.Log("exec", c.Path, 0)
	simrt.Point("exec", 0)
	c.started = true
	c.fault = decide()
	c.prog = programs[baseName(c.Path)]
	if c.prog == nil || c.fault == XMissing {
		c.finished = true
		return &Error{Name: c.Path, Err: ErrNotFound}
	}
	if c.prog.Session != nil && (c.inPipe != nil || c.outPipe != nil) {
		if c.fault == XNone {
			c.sess = c.prog.Session(c.Args)
		}
		if c.inPipe != nil {
			c.inPipe.cmd = c
		}
		if c.outPipe != nil && c.fault == XExit1 {
			c.outPipe.close()
		}
		return nil
	}
	return nil
}

func (c *Cmd) Run() error {
	if err := c.Start(); err != nil {
		return err
	}
	return c.Wait()
}

func (c *Cmd) Wait() error {
	if !c.started {
		return errors.New("exec: not started")
	}
	if c.finished {
		return errors.New("exec: Wait was already called")
	}
	c.finished = true
	simrt.Point("wait", 0)
	if c.sess != nil || c.inPipe != nil || c.outPipe != nil {
		if c.outPipe != nil {
			c.outPipe.close()
		}
		if c.fault == XExit1 || c.hasDied() {
			return &exitErr{1}
		}
		return nil
	}
	var in []byte
	if c.Stdin != nil {
		in, _ = io.ReadAll(c.Stdin)
	}
	switch c.fault {
	case XExit1:
		return &exitErr{1}
	case XGarbage:
		if c.Stdout != nil {
			c.Stdout.Write([]byte("\x00\xff garbage <<<&;\n"))
		}
		return nil
	}
	if c.prog.Batch == nil {
		return nil
	}
	out, errb, code := c.prog.Batch(c.Args, in)
	if c.Stdout != nil && len(out) > 0 {
		if _, err := c.Stdout.Write(out); err != nil {
			return err
		}
	}
	if c.Stderr != nil && len(errb) > 0 {
		c.Stderr.Write(errb)
	}
	if code != 0 {
		return &exitErr{code}
	}
	return nil
}

func (c *Cmd) Output() ([]byte, error) {
	if c.Stdout != nil {
		return nil, errors.New("exec: Stdout already set")
	}
	var b bytes.Buffer
	c.Stdout = &b
	err := c.Run()
	return b.Bytes(), err
}

func (c *Cmd) CombinedOutput() ([]byte, error) {
	if c.Stdout != nil {
		return nil, errors.New("exec: Stdout already set")
	}
	var b bytes.Buffer
	c.Stdout = &b
	c.Stderr = &b
	err := c.Run()
	return b.Bytes(), err
}

func (c *Cmd) StdinPipe() (io.WriteCloser, error) {
	if c.Stdin != nil || c.inPipe != nil {
		return nil, errors.New("exec: Stdin already set")
	}
	if c.outPipe == nil {
		c.outPipe = &pipeR{}
		c.outPipe.hidden = true
	}
	c.inPipe = &pipeW{out: c.outPipe}
	return c.inPipe, nil
}

func (c *Cmd) StdoutPipe() (io.ReadCloser, error) {
	if c.Stdout != nil {
		return nil, errors.New("exec: Stdout already set")
	}
	if c.outPipe != nil && !c.outPipe.hidden {
		return nil, errors.New("exec: StdoutPipe already called")
	}
	if c.outPipe == nil {
		c.outPipe = &pipeR{}
	}
	c.outPipe.hidden = false
	return c.outPipe, nil
}

func (c *Cmd) StderrPipe() (io.ReadCloser, error) {
	p := &pipeR{}
	p.close()
	return p, nil
}

// pipeR is the tool's stdout as seen by pprof. Shared between tasks without
// race-visible synchronisation (it stands for kernel pipe buffers).
type pipeR struct {
	buf    []byte
	r, w   int
	m      simrt.PipeModel
	hidden bool
}

//go:norace
func (p *pipeR) push(s string) {
	if p.w+len(s)+1 > len(p.buf) {
		c := 2*len(p.buf) + len(s) + 64
		nb := make([]byte, c)
		for i := p.r; i < p.w; i++ {
			nb[i-p.r] = p.buf[i]
		}
		p.w -= p.r
		p.r = 0
		p.buf = nb
	}
	for i := 0; i < len(s); i++ {
		p.buf[p.w+i] = s[i]
	}
	p.buf[p.w+len(s)] = '\n'
	p.w += len(s) + 1
	simrt.PipeSet(&p.m, int64(p.w-p.r), p.m.Closed)
}

//go:norace
func (p *pipeR) close() { simrt.PipeSet(&p.m, int64(p.w-p.r), true) }

//go:norace
func (p *pipeR) Read(b []byte) (int, error) {
	if len(b) == 0 {
		return 0, nil
	}
	simrt.Point("pipe-r", 0)
	if p.w == p.r && !p.m.Closed {
		if !simrt.Active() {
			return 0, io.ErrUnexpectedEOF
		}
		simrt.PipeWait(&p.m)
	}
	if p.w == p.r {
		return 0, io.EOF
	}
	n := 0
	for n < len(b) && p.r < p.w {
		b[n] = p.buf[p.r]
		n++
		p.r++
	}
	simrt.PipeSet(&p.m, int64(p.w-p.r), p.m.Closed)
	return n, nil
}

func (p *pipeR) Close() error { p.close(); return nil }

// pipeW is the tool's stdin.
type pipeW struct {
	cmd     *Cmd
	out     *pipeR
	partial []byte
	np      int
	closed  bool
}

//go:norace
func (p *pipeW) takeLine(b []byte) (string, []byte, bool) {
	for i := 0; i < len(b); i++ {
		if b[i] == '\n' {
			line := make([]byte, p.np+i)
			for j := 0; j < p.np; j++ {
				line[j] = p.partial[j]
			}
			for j := 0; j < i; j++ {
				line[p.np+j] = b[j]
			}
			p.np = 0
			return string(line), b[i+1:], true
		}
	}
	// keep the partial line
	if p.np+len(b) > len(p.partial) {
		np := make([]byte, 2*(p.np+len(b))+16)
		for j := 0; j < p.np; j++ {
			np[j] = p.partial[j]
		}
		p.partial = np
	}
	for j := 0; j < len(b); j++ {
		p.partial[p.np+j] = b[j]
	}
	p.np += len(b)
	return "", nil, false
}

func (p *pipeW) Write(b []byte) (int, error) {
	if p.isClosed() {
		return 0, os.ErrClosed
	}
	simrt.Point("pipe-w", 0)
	n := len(b)
	c := p.cmd
	if c == nil {
		return n, nil
	}
	if c.hasDied() {
		return 0, syscall.EPIPE
	}
	for {
		line, rest, ok := p.takeLine(b)
		if !ok {
			break
		}
		b = rest
		switch {
		case c.fault == XGarbage:
			p.out.push("\x00?? garbage")
		case c.sess != nil:
			for _, o := range c.sess.Line(line) {
				if o == Die {
					// the tool crashes on this request: its stdout ends here and
					// whatever is written to it afterwards meets a broken pipe
					c.setDied()
					p.out.close()
					return n, nil
				}
				p.out.push(o)
			}
		}
	}
	return n, nil
}

//go:norace
func (p *pipeW) isClosed() bool { return p.closed }

//go:norace
func (p *pipeW) Close() error {
	p.closed = true
	if p.out != nil {
		p.out.close()
	}
	return nil
}
