// Package simsync has the API of package sync. Every operation is a
// scheduling point of the simulated run; blocking is decided on a model of
// the primitive kept by simrt, and the real primitive is still executed
// (when the model says it cannot block) so that the race detector receives
// exactly the happens-before edges the program itself creates. Outside a run
// everything is plain pass-through.
package simsync

import (
	"sync"
	"unsafe"

	"github.com/google/pprof/internal/verifsim/simrt"
)

type (
	Locker = sync.Locker
	Map    = sync.Map
)

// Pool mirrors sync.Pool with a deterministic LIFO free list (the real Pool
// keeps per-P caches and, under -race, drops items at random: which object a
// Get returns would depend on real scheduling). Like the real Pool it orders
// a Put before the Get that returns the same object for the race detector.
type Pool struct {
	New   func() any
	items []any
	n     int
	addr  [1]byte
}

//go:norace
func (p *Pool) push(x any) {
	if p.n == len(p.items) {
		ni := make([]any, 2*len(p.items)+4)
		for i := 0; i < p.n; i++ {
			ni[i] = p.items[i]
		}
		p.items = ni
	}
	p.items[p.n] = x
	p.n++
}

//go:norace
func (p *Pool) pop() (any, bool) {
	if p.n == 0 {
		return nil, false
	}
	p.n--
	x := p.items[p.n]
	p.items[p.n] = nil
	return x, true
}

func (p *Pool) Put(x any) {
	if x == nil {
		return
	}
	simrt.RaceReleaseMerge(unsafe.Pointer(&p.addr[0]))
	p.push(x)
	simrt.Point("pool-put", 0)
}

func (p *Pool) Get() any {
	simrt.Point("pool-get", 0)
	if x, ok := p.pop(); ok {
		simrt.RaceAcquire(unsafe.Pointer(&p.addr[0]))
		return x
	}
	if p.New != nil {
		return p.New()
	}
	return nil
}

// Mutex mirrors sync.Mutex.
type Mutex struct {
	mu sync.Mutex
	m  simrt.LockModel
}

func (m *Mutex) Lock() {
	switch simrt.LockAcquire(&m.m) {
	case simrt.ModeTry:
		simrt.LockNoteTry(&m.m, m.mu.TryLock())
	default:
		m.mu.Lock()
	}
}

func (m *Mutex) TryLock() bool {
	mode, ok := simrt.LockTry(&m.m)
	switch mode {
	case simrt.ModePlain:
		return m.mu.TryLock()
	case simrt.ModeTry:
		ok = m.mu.TryLock()
		simrt.LockNoteTry(&m.m, ok)
		return ok
	case simrt.ModeSkip:
		return false
	}
	m.mu.Lock()
	return ok
}

func (m *Mutex) Unlock() {
	switch simrt.LockRelease(&m.m) {
	case simrt.ModeSkip:
		return
	case simrt.ModePlain:
		m.mu.Unlock()
		return
	}
	m.mu.Unlock()
	simrt.AfterRelease()
}

// RWMutex mirrors sync.RWMutex.
type RWMutex struct {
	mu sync.RWMutex
	m  simrt.LockModel
}

func (m *RWMutex) Lock() {
	switch simrt.LockAcquire(&m.m) {
	case simrt.ModeTry:
		simrt.LockNoteTry(&m.m, m.mu.TryLock())
	default:
		m.mu.Lock()
	}
}

func (m *RWMutex) Unlock() {
	switch simrt.LockRelease(&m.m) {
	case simrt.ModeSkip:
		return
	case simrt.ModePlain:
		m.mu.Unlock()
		return
	}
	m.mu.Unlock()
	simrt.AfterRelease()
}

func (m *RWMutex) RLock() {
	switch simrt.RLockAcquire(&m.m) {
	case simrt.ModeTry:
		simrt.RLockNoteTry(&m.m, m.mu.TryRLock())
	default:
		m.mu.RLock()
	}
}

func (m *RWMutex) RUnlock() {
	switch simrt.RLockRelease(&m.m) {
	case simrt.ModeSkip:
		return
	case simrt.ModePlain:
		m.mu.RUnlock()
		return
	}
	m.mu.RUnlock()
	simrt.AfterRelease()
}

// TryLock and TryRLock decide on the model, like the blocking variants.
func (m *RWMutex) TryLock() bool {
	mode, ok := simrt.LockTry(&m.m)
	switch mode {
	case simrt.ModePlain:
		return m.mu.TryLock()
	case simrt.ModeTry:
		ok = m.mu.TryLock()
		simrt.LockNoteTry(&m.m, ok)
		return ok
	case simrt.ModeSkip:
		return false
	}
	m.mu.Lock()
	return ok
}

func (m *RWMutex) TryRLock() bool {
	mode, ok := simrt.RLockTry(&m.m)
	switch mode {
	case simrt.ModePlain:
		return m.mu.TryRLock()
	case simrt.ModeTry:
		ok = m.mu.TryRLock()
		simrt.RLockNoteTry(&m.m, ok)
		return ok
	case simrt.ModeSkip:
		return false
	}
	m.mu.RLock()
	return ok
}

func (m *RWMutex) RLocker() Locker { return (*rlocker)(m) }

type rlocker RWMutex

func (r *rlocker) Lock()   { (*RWMutex)(r).RLock() }
func (r *rlocker) Unlock() { (*RWMutex)(r).RUnlock() }

// WaitGroup mirrors sync.WaitGroup.
type WaitGroup struct {
	wg sync.WaitGroup
	m  simrt.WGModel
}

func (w *WaitGroup) Add(delta int) {
	switch simrt.WGAdd(&w.m, delta) {
	case simrt.ModeSkip:
		return
	case simrt.ModePlain:
		w.wg.Add(delta)
		return
	}
	w.wg.Add(delta)
	if delta < 0 {
		simrt.AfterRelease()
	}
}

func (w *WaitGroup) Done() { w.Add(-1) }

func (w *WaitGroup) Wait() {
	if simrt.WGWait(&w.m) == simrt.ModeSkip {
		return
	}
	w.wg.Wait()
}

// Once mirrors sync.Once.
type Once struct {
	o sync.Once
	m simrt.OnceModel
}

func (o *Once) Do(f func()) {
	switch simrt.OnceEnter(&o.m) {
	case simrt.ModeSkip:
		return
	case simrt.ModePlain:
		o.o.Do(f)
		return
	}
	defer simrt.OnceLeave(&o.m)
	o.o.Do(f)
}

func OnceFunc(f func()) func() {
	var o Once
	return func() { o.Do(f) }
}

func OnceValue[T any](f func() T) func() T {
	var o Once
	var v T
	return func() T { o.Do(func() { v = f() }); return v }
}

func OnceValues[T1, T2 any](f func() (T1, T2)) func() (T1, T2) {
	var o Once
	var v1 T1
	var v2 T2
	return func() (T1, T2) { o.Do(func() { v1, v2 = f() }); return v1, v2 }
}

// Cond mirrors sync.Cond (model only inside a run).
type Cond struct {
	L Locker
	c *sync.Cond
	m simrt.CondModel
}

func NewCond(l Locker) *Cond { return &Cond{L: l, c: sync.NewCond(l)} }

func (c *Cond) Wait() {
	if !simrt.Active() {
		c.c.Wait()
		return
	}
	c.L.Unlock()
	simrt.CondWait(&c.m)
	c.L.Lock()
}

func (c *Cond) Signal() {
	if !simrt.Active() {
		c.c.Signal()
		return
	}
	simrt.CondSignal(&c.m, false)
}

func (c *Cond) Broadcast() {
	if !simrt.Active() {
		c.c.Broadcast()
		return
	}
	simrt.CondSignal(&c.m, true)
}
