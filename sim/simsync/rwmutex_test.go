package simsync

import (
	"testing"

	"github.com/google/pprof/internal/verifsim/simrt"
)

// The RWMutex model follows sync.RWMutex: a Lock call that waits for readers
// admits no further reader, so taking the read lock twice in one task
// deadlocks as soon as a writer arrives in between; it never does otherwise.
func rwScenario(recursive bool) (deadlocks, runs int) {
	for seed := uint64(1); seed <= 200; seed++ {
		var mu RWMutex
		shared := 0
		res := simrt.Exec(simrt.Config{Tape: simrt.NewTape(seed), Strategy: simrt.StratRandom, SwitchT: 128}, func() {
			w := simrt.GoJoinable("t", func() {
				mu.Lock()
				shared++
				mu.Unlock()
			})
			rd := simrt.GoJoinable("t", func() {
				mu.RLock()
				if recursive {
					mu.RLock()
					_ = shared
					mu.RUnlock()
				}
				_ = shared
				mu.RUnlock()
			})
			simrt.Join(w)
			simrt.Join(rd)
		})
		runs++
		if res.Verdict == simrt.Deadlock {
			deadlocks++
		} else if res.Verdict != simrt.OK {
			panic(res.Verdict)
		}
	}
	return
}

func TestRWMutexWriterExcludesNewReaders(t *testing.T) {
	if d, n := rwScenario(true); d == 0 {
		t.Fatalf("recursive read lock with a concurrent writer never deadlocked in %d schedules", n)
	} else {
		t.Logf("recursive: %d of %d schedules deadlock", d, n)
	}
	if d, n := rwScenario(false); d != 0 {
		t.Fatalf("plain reader/writer deadlocked in %d of %d schedules", d, n)
	}
}

func TestUnlockOfUnlockedIsReported(t *testing.T) {
	for _, which := range []string{"mutex", "rw", "r"} {
		var mu Mutex
		var rw RWMutex
		res := simrt.Exec(simrt.Config{Tape: simrt.NewTape(1)}, func() {
			switch which {
			case "mutex":
				mu.Lock()
				mu.Unlock()
				mu.Unlock()
			case "rw":
				rw.Unlock()
			case "r":
				rw.RLock()
				rw.RUnlock()
				rw.RUnlock()
			}
		})
		if len(res.Panics) != 1 {
			t.Fatalf("%s: unlock of an unlocked lock not reported: %+v", which, res)
		}
	}
}
