package simtime

import "time"

// The rest of package time's exported surface, so that code under test that
// starts using one of these still builds against the seam.

type ParseError = time.ParseError

const (
	January   = time.January
	February  = time.February
	March     = time.March
	April     = time.April
	May       = time.May
	June      = time.June
	July      = time.July
	August    = time.August
	September = time.September
	October   = time.October
	November  = time.November
	December  = time.December

	Sunday    = time.Sunday
	Monday    = time.Monday
	Tuesday   = time.Tuesday
	Wednesday = time.Wednesday
	Thursday  = time.Thursday
	Friday    = time.Friday
	Saturday  = time.Saturday

	Layout     = time.Layout
	RubyDate   = time.RubyDate
	RFC822Z    = time.RFC822Z
	RFC850     = time.RFC850
	RFC1123Z   = time.RFC1123Z
	Stamp      = time.Stamp
	StampMilli = time.StampMilli
	StampMicro = time.StampMicro
	StampNano  = time.StampNano
)

var (
	ParseInLocation        = time.ParseInLocation
	LoadLocationFromTZData = time.LoadLocationFromTZData
)
