// Package simtime has the API of package time as far as pprof (and plausible
// changes to it) use it; the clock is the simulated run's discrete-event
// clock. Outside a run it passes through to package time.
package simtime

import (
	"time"

	"github.com/google/pprof/internal/verifsim/simrt"
)

type (
	Duration = time.Duration
	Time     = time.Time
	Month    = time.Month
	Weekday  = time.Weekday
	Location = time.Location
	Timer    = time.Timer
	Ticker   = time.Ticker
)

const (
	Nanosecond  = time.Nanosecond
	Microsecond = time.Microsecond
	Millisecond = time.Millisecond
	Second      = time.Second
	Minute      = time.Minute
	Hour        = time.Hour

	RFC3339     = time.RFC3339
	RFC3339Nano = time.RFC3339Nano
	RFC1123     = time.RFC1123
	RFC822      = time.RFC822
	Kitchen     = time.Kitchen
	ANSIC       = time.ANSIC
	UnixDate    = time.UnixDate
	DateTime    = time.DateTime
	DateOnly    = time.DateOnly
	TimeOnly    = time.TimeOnly
)

var (
	UTC   = time.UTC
	Local = time.Local

	Unix          = time.Unix
	UnixMilli     = time.UnixMilli
	UnixMicro     = time.UnixMicro
	Date          = time.Date
	Parse         = time.Parse
	ParseDuration = time.ParseDuration
	FixedZone     = time.FixedZone
	LoadLocation  = time.LoadLocation
)

// epoch of simulated time: fixed, so that runs are reproducible.
var epoch = time.Unix(1_700_000_000, 0)

func Now() Time {
	if !simrt.Active() {
		return time.Now()
	}
	return epoch.Add(time.Duration(simrt.NowNs()))
}

func Since(t Time) Duration { return Now().Sub(t) }
func Until(t Time) Duration { return t.Sub(Now()) }

func Sleep(d Duration) {
	if !simrt.Active() {
		time.Sleep(d)
		return
	}
	simrt.SleepNs(int64(d))
}

// After: inside a run the calling task sleeps d simulated nanoseconds now and
// the returned channel is already filled. pprof only ever uses time.After as
// "wait a little" (commands.go); a select between a timeout and real work is
// not representable (documented limitation).
func After(d Duration) <-chan Time {
	if !simrt.Active() {
		return time.After(d)
	}
	simrt.SleepNs(int64(d))
	c := make(chan Time, 1)
	c <- Now()
	return c
}

func Tick(d Duration) <-chan Time           { return time.Tick(d) }
func NewTimer(d Duration) *Timer            { return time.NewTimer(d) }
func NewTicker(d Duration) *Ticker          { return time.NewTicker(d) }
func AfterFunc(d Duration, f func()) *Timer { return time.AfterFunc(d, f) }
