// Package simhttp stands in for net/http inside internal/transport: every
// name is the real one (zz_alias.go) except Transport, whose RoundTrip does a
// simulated TLS handshake against the network the engines install and then
// hands the request to that network. internal/transport - certificate
// loading, the https+insecure scheme, the per-request TLS configuration - is
// thereby real code under test instead of being replaced by a stub.
package simhttp

import (
	"crypto/tls"
	"errors"
	"fmt"
	"net/http"

	"github.com/google/pprof/internal/verifsim/simrt"
)

// Network is what an engine installs: CertTrusted says whether the server
// behind host presents a certificate that verifies against roots (nil: the
// system's), Serve answers the request once the connection is up.
type Network interface {
	CertTrusted(host string, cfg *tls.Config) bool
	Serve(req *http.Request) (*http.Response, error)
}

var network Network

// SetNetwork installs the simulated network (nil: none, every request fails).
func SetNetwork(n Network) { network = n }

func (t *Transport) RoundTrip(req *http.Request) (*http.Response, error) {
	n := network
	if n == nil {
		return nil, errors.New("simhttp: no network")
	}
	simrt.Point("net-dial", 0)
	switch req.URL.Scheme {
	case "http":
	case "https":
		cfg := t.TLSClientConfig
		skip := cfg != nil && cfg.InsecureSkipVerify
		simrt.Point("tls-handshake", 0)
		if !skip && !n.CertTrusted(req.URL.Host, cfg) {
			return nil, fmt.Errorf("tls: failed to verify certificate: x509: certificate signed by unknown authority")
		}
	default:
		return nil, fmt.Errorf("unsupported protocol scheme %q", req.URL.Scheme)
	}
	return n.Serve(req)
}

func (t *Transport) Clone() *Transport {
	c := *t
	if t.TLSClientConfig != nil {
		c.TLSClientConfig = t.TLSClientConfig.Clone()
	}
	return &c
}

func (t *Transport) CloseIdleConnections() {}

func (t *Transport) CancelRequest(req *http.Request) {}

func (t *Transport) RegisterProtocol(scheme string, rt http.RoundTripper) {}
