//go:build race

package simrt

import (
	"runtime"
	"unsafe"
)

// RaceBuild reports whether the binary was built with -race.
const RaceBuild = true

func raceDisable() { runtime.RaceDisable() }
func raceEnable()  { runtime.RaceEnable() }

// RaceAcquire / RaceReleaseMerge expose the race detector's annotation calls
// (used by simsync.Pool to keep sync.Pool's happens-before contract).
func RaceAcquire(p unsafe.Pointer)      { runtime.RaceAcquire(p) }
func RaceReleaseMerge(p unsafe.Pointer) { runtime.RaceReleaseMerge(p) }
