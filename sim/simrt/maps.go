package simrt

import (
	"reflect"
	"sort"
	"unsafe"
)

// Map iteration as a seeded seam. The instrumenter rewrites
//
//	for k, v := range m { body }
//
// into
//
//	for _, e := range simrt.MapIter(m, site) { k := e.K; v, ok := e.M[e.K]; if !ok { continue }; body }
//
// MapIter snapshots the keys, puts them in a canonical order (by value; for
// pointers by first-insertion stamp) and then applies the permutation the
// run's policy and tape dictate. Outside a run, or with MapCanonical, the
// order is the canonical one, so reference executions are reproducible.

// Entry is one element of a MapIter snapshot.
type Entry[M any, K comparable] struct {
	M M
	K K
}

// MapIter returns the keys of m in simulated iteration order.
func MapIter[M ~map[K]V, K comparable, V any](m M, site uint32) []Entry[M, K] {
	n := len(m)
	if n == 0 {
		return nil
	}
	keys := make([]K, 0, n)
	for k := range m {
		keys = append(keys, k)
	}
	if n > 1 {
		sortKeys(keys)
		permute(len(keys), site, func(i, j int) { keys[i], keys[j] = keys[j], keys[i] }, func(rot int) {
			tmp := make([]K, 0, n)
			tmp = append(tmp, keys[rot:]...)
			tmp = append(tmp, keys[:rot]...)
			copy(keys, tmp)
		})
	} else {
		noteRange(false)
	}
	out := make([]Entry[M, K], n)
	for i, k := range keys {
		out[i] = Entry[M, K]{M: m, K: k}
	}
	return out
}

//go:norace
func noteRange(permuted bool) {
	if r := run; r != nil {
		r.mapRanges++
		if permuted {
			r.mapPerms++
		}
	}
}

//go:norace
func mapPolicy() (int, *Tape) {
	r := run
	if r == nil || r.aborting {
		return MapCanonical, nil
	}
	return r.cfg.MapPolicy, r.tape
}

func permute(n int, site uint32, swap func(i, j int), rotate func(rot int)) {
	pol, tape := mapPolicy()
	if pol == MapMixed {
		pol = tape.Choose(KMapSeed, 4)
	}
	switch pol {
	case MapCanonical:
		noteRange(false)
	case MapReverse:
		for i, j := 0, n-1; i < j; i, j = i+1, j-1 {
			swap(i, j)
		}
		noteRange(true)
	case MapRotate:
		rot := tape.Choose(KMapSeed, n)
		if rot != 0 {
			rotate(rot)
		}
		noteRange(rot != 0)
	case MapShuffle:
		s := uint64(tape.Choose(KMapSeed, 1<<30))
		if s == 0 {
			noteRange(false)
			return
		}
		for i := n - 1; i > 0; i-- {
			s ^= s << 13
			s ^= s >> 7
			s ^= s << 17
			j := int(s % uint64(i+1))
			swap(i, j)
		}
		noteRange(true)
	}
}

func sortKeys[K comparable](keys []K) {
	switch ks := any(keys).(type) {
	case []string:
		sort.Strings(ks)
		return
	case []int:
		sort.Ints(ks)
		return
	case []uint64:
		sort.Slice(ks, func(i, j int) bool { return ks[i] < ks[j] })
		return
	case []int64:
		sort.Slice(ks, func(i, j int) bool { return ks[i] < ks[j] })
		return
	}
	vals := make([]reflect.Value, len(keys))
	for i := range keys {
		vals[i] = reflect.ValueOf(&keys[i]).Elem()
	}
	// Sort an index permutation, then apply it.
	idx := make([]int, len(keys))
	for i := range idx {
		idx[i] = i
	}
	sort.SliceStable(idx, func(a, b int) bool { return cmpValue(vals[idx[a]], vals[idx[b]]) < 0 })
	out := make([]K, len(keys))
	for i, j := range idx {
		out[i] = keys[j]
	}
	copy(keys, out)
}

func cmpValue(a, b reflect.Value) int {
	switch a.Kind() {
	case reflect.String:
		as, bs := a.String(), b.String()
		switch {
		case as < bs:
			return -1
		case as > bs:
			return 1
		}
		return 0
	case reflect.Int, reflect.Int8, reflect.Int16, reflect.Int32, reflect.Int64:
		ai, bi := a.Int(), b.Int()
		switch {
		case ai < bi:
			return -1
		case ai > bi:
			return 1
		}
		return 0
	case reflect.Uint, reflect.Uint8, reflect.Uint16, reflect.Uint32, reflect.Uint64, reflect.Uintptr:
		ai, bi := a.Uint(), b.Uint()
		switch {
		case ai < bi:
			return -1
		case ai > bi:
			return 1
		}
		return 0
	case reflect.Float32, reflect.Float64:
		ai, bi := a.Float(), b.Float()
		switch {
		case ai < bi:
			return -1
		case ai > bi:
			return 1
		}
		return 0
	case reflect.Bool:
		ab, bb := a.Bool(), b.Bool()
		switch {
		case !ab && bb:
			return -1
		case ab && !bb:
			return 1
		}
		return 0
	case reflect.Pointer, reflect.UnsafePointer, reflect.Chan, reflect.Func, reflect.Map:
		sa, sb := stampOf(a.UnsafePointer(), true), stampOf(b.UnsafePointer(), true)
		switch {
		case sa < sb:
			return -1
		case sa > sb:
			return 1
		}
		return 0
	case reflect.Struct:
		for i := 0; i < a.NumField(); i++ {
			if c := cmpValue(a.Field(i), b.Field(i)); c != 0 {
				return c
			}
		}
		return 0
	case reflect.Array:
		for i := 0; i < a.Len(); i++ {
			if c := cmpValue(a.Index(i), b.Index(i)); c != 0 {
				return c
			}
		}
		return 0
	case reflect.Interface:
		if a.IsNil() || b.IsNil() {
			switch {
			case a.IsNil() && !b.IsNil():
				return -1
			case !a.IsNil() && b.IsNil():
				return 1
			}
			return 0
		}
		ae, be := a.Elem(), b.Elem()
		if ae.Type() != be.Type() {
			as, bs := ae.Type().String(), be.Type().String()
			if as < bs {
				return -1
			}
			return 1
		}
		return cmpValue(ae, be)
	}
	return 0
}

// ---- pointer stamps ----

// Stamp numbers p in first-use order and returns it. The instrumenter wraps
// every key of an insert into a pointer-keyed map in Stamp, so that MapIter
// has a reproducible canonical order for pointer keys.
func Stamp[T any](p *T) *T {
	if p != nil {
		stampOf(unsafe.Pointer(p), false)
	}
	return p
}

var (
	stPtr  []unsafe.Pointer
	stNum  []uint64
	stUsed int
	stNext uint64
)

// ResetStamps forgets all pointer stamps (between independent executions).
func ResetStamps() { resetStamps() }

//go:norace
func resetStamps() {
	stPtr = make([]unsafe.Pointer, 1<<12)
	stNum = make([]uint64, 1<<12)
	stUsed = 0
	stNext = 0
}

//go:norace
func stampOf(p unsafe.Pointer, late bool) uint64 {
	if p == nil {
		return 0
	}
	if stPtr == nil {
		resetStamps()
	}
	mask := uintptr(len(stPtr) - 1)
	h := (uintptr(p) >> 3) * 0x9E3779B1
	for i := h & mask; ; i = (i + 1) & mask {
		q := stPtr[i]
		if q == p {
			return stNum[i]
		}
		if q == nil {
			if late {
				if r := run; r != nil {
					r.unstamped++
				}
				lateStamps++
			}
			stNext++
			stPtr[i] = p
			stNum[i] = stNext
			stUsed++
			if stUsed*2 > len(stPtr) {
				growStamps()
			}
			return stNext
		}
	}
}

var lateStamps int64

// LateStamps returns how many pointer keys reached MapIter without a stamp
// since process start (their relative order is then not reproducible).
//
//go:norace
func LateStamps() int64 { return lateStamps }

//go:norace
func growStamps() {
	op, on := stPtr, stNum
	stPtr = make([]unsafe.Pointer, 2*len(op))
	stNum = make([]uint64, 2*len(op))
	mask := uintptr(len(stPtr) - 1)
	for k := 0; k < len(op); k++ {
		p := op[k]
		if p == nil {
			continue
		}
		h := (uintptr(p) >> 3) * 0x9E3779B1
		for i := h & mask; ; i = (i + 1) & mask {
			if stPtr[i] == nil {
				stPtr[i] = p
				stNum[i] = on[k]
				break
			}
		}
	}
}
