package simrt

// Simulated process boundary. The instrumenter generates, for every
// instrumented package, a function that re-assigns each package-level
// variable from its initialiser (in the type checker's initialisation order)
// and re-runs the init functions; it registers that function here from the
// package's own init, so registration order is dependency order.

type reinit struct {
	pkg string
	fn  func()
}

var reinits []reinit

// RegisterReinit is called from generated code.
func RegisterReinit(pkg string, fn func()) { reinits = append(reinits, reinit{pkg, fn}) }

// ReinitAll re-initialises every instrumented package, dependencies first:
// the in-memory state of the simulated process is back to what a fresh
// process would have. Must not be called while a run is active.
func ReinitAll() {
	if Active() {
		panic("simrt: ReinitAll during a run")
	}
	for _, r := range reinits {
		r.fn()
	}
	ResetStamps()
}

// ReinitPackages lists the registered packages.
func ReinitPackages() []string {
	var out []string
	for _, r := range reinits {
		out = append(out, r.pkg)
	}
	return out
}
