package simrt

import "runtime"

// Channel operations of the program under test. The instrumenter rewrites
//
//	<-ch            ->  simrt.Recv(ch)        v, ok := <-ch  ->  simrt.Recv2(ch)
//	ch <- v         ->  simrt.Send(ch, v)
//	for v := range ch { ... }  ->  for { v, ok := simrt.Recv2(ch); if !ok { break }; ... }
//	select { cases } (without default)  ->  L: select { cases; default: simrt.ChanRetry(..); goto L }
//
// so that a task never blocks on a real channel while holding the baton: the
// real operation is attempted without blocking; if it cannot proceed the task
// parks until some other task has made progress and then retries. The real
// channel operation is what finally happens, so the race detector still sees
// the happens-before edges the program creates through its channels.

// Recv is <-ch.
func Recv[T any](ch <-chan T) T {
	v, _ := Recv2(ch)
	return v
}

// Recv2 is v, ok := <-ch.
func Recv2[T any](ch <-chan T) (T, bool) {
	if !Active() {
		v, ok := <-ch
		return v, ok
	}
	for first := true; ; first = false {
		select {
		case v, ok := <-ch:
			Point("chan-recv", 0)
			return v, ok
		default:
			ChanRetry(first)
		}
	}
}

// Send is ch <- v.
func Send[T any](ch chan<- T, v T) {
	if !Active() {
		ch <- v
		return
	}
	for first := true; ; first = false {
		select {
		case ch <- v:
			Point("chan-send", 0)
			return
		default:
			ChanRetry(first)
		}
	}
}

// ChanRetry parks the running task until another task has made progress.
// first must be true for the first failed attempt of one wait.
//
//go:norace
func ChanRetry(first bool) {
	r := run
	if r == nil {
		runtime.Gosched()
		return
	}
	if r.aborting {
		panic(abortSentinel)
	}
	if first {
		// The task ran code since its last scheduling point (it may have
		// closed or filled another channel): that is progress for the others.
		r.progress++
	}
	r.block(wkChan, nil, r.progress)
}

// SelectRetry is ChanRetry for rewritten select statements: *n counts the
// failed attempts of this execution of the select.
//
//go:norace
func SelectRetry(n *int) {
	*n++
	ChanRetry(*n == 1)
}

// BlockForever is `select {}`.
//
//go:norace
func BlockForever() {
	for first := true; ; first = false {
		if !Active() {
			select {}
		}
		ChanRetry(first)
	}
}

// Gosched replaces runtime.Gosched in the instrumented packages: the task
// gives way until some other task has made progress (a spin-wait on a flag
// would otherwise keep the baton forever).
//
//go:norace
func Gosched() {
	r := run
	if r == nil {
		runtime.Gosched()
		return
	}
	if r.aborting {
		panic(abortSentinel)
	}
	others := false
	for i := int32(0); i < r.ntasks; i++ {
		t := r.tasks[i]
		if i != r.cur && t.state != tsDone {
			others = true
		}
	}
	if !others {
		r.point("gosched", 0)
		return
	}
	r.progress++
	r.block(wkChan, nil, r.progress)
}
