package simrt

import (
	"fmt"
	"runtime/debug"
	"strings"
	"sync"
	"unsafe"
)

// Cooperative scheduler: every simulated task is a real goroutine, exactly
// one holds the baton. A task gives the baton up only inside this package.
// Which task runs next is read from the choice tape.
//
// Race-detector cooperation. The baton hand-off is a channel send/receive;
// it is wrapped in runtime.RaceDisable/RaceEnable so that it creates no
// happens-before edge, and every function that touches scheduler state is
// //go:norace and restricted to plain loads/stores on fixed arrays and
// make()-allocated slices (map and append operations are instrumented inside
// the runtime whatever the caller says). The race detector therefore sees
// only the synchronisation the program under test performs itself, while the
// interleaving is the one the tape dictates.

const maxTasks = 2048

// Verdict of one simulated run.
type Verdict int

const (
	OK        Verdict = iota
	Deadlock          // some task blocked, nothing runnable, no timer pending
	StepLimit         // step cap exceeded (hang)
	Killed            // Kill() was called (simulated process death)
)

func (v Verdict) String() string {
	return [...]string{"ok", "deadlock", "steplimit", "killed"}[v]
}

type waitKind int32

const (
	wkNone waitKind = iota
	wkMutex
	wkRLock
	wkWG
	wkOnce
	wkTimer
	wkJoin
	wkPipe
	wkCond
	wkFlag
	wkChan
)

var wkNames = [...]string{"-", "mutex", "rlock", "waitgroup", "once", "timer", "join", "pipe", "cond", "flag", "channel"}

type taskState int32

const (
	tsRunnable taskState = iota
	tsBlocked
	tsDone
)

// Task is one simulated task.
type Task struct {
	id      int32
	state   taskState
	wk      waitKind
	wobj    unsafe.Pointer
	warg    int64
	wake    chan struct{}
	prio    int64
	name    string
	started bool
	done    chan struct{} // closed (race-visibly) when the task's function has returned
}

// Strategy selects how scheduling decisions are made.
type Strategy int

const (
	StratRunToBlock Strategy = iota // switch only when the running task blocks or exits; next task from the tape
	StratRandom                     // random walk: switch with probability SwitchPct/256 at sync and I/O points
	StratPCT                        // probabilistic concurrency testing: priorities + few change points
	StratEnum                       // binary switch / pick choices at sync and I/O points, for systematic enumeration of the tape
)

// Map iteration policies.
const (
	MapCanonical = iota
	MapReverse
	MapRotate
	MapShuffle
	MapMixed // one of the above per range statement execution
)

// Config of one run.
type Config struct {
	Tape        *Tape
	MaxSteps    int64
	Strategy    Strategy
	SwitchT     int // random walk: switch when Choose(256) >= 256-SwitchT
	PreemptMean int // >0: function-entry yields are scheduling points, mean distance between preemptions
	PCTDepth    int
	PCTSteps    int // estimated number of scheduling points, for placing change points
	MapPolicy   int
	Trace       bool
	TraceCap    int
	MaxYields   int64 // cap on function-entry yields of one run (0: 50 million); exceeding it is a hang
}

// Event is one entry of the event log (kept only when Config.Trace).
type Event struct {
	Seq  int64
	Task int32
	Kind string
	A, B int64
	S    string
}

// TaskPanic records a panic that escaped a task.
type TaskPanic struct {
	Task  string
	Value string
	Stack string
}

// Result of a run.
type Result struct {
	Verdict   Verdict
	Panics    []TaskPanic
	Steps     int64
	Switches  int64
	SwitchSig uint64
	EventHash uint64
	Events    int64
	SimTimeNs int64
	Trace     []Event
	Blocked   string // wait-for description on deadlock / step limit
	Unstamped int64
	Tasks     int
	MapRanges int64
	MapPerms  int64 // ranges over maps with >=2 keys that were actually permuted
	Yields    int64
}

// Run is the state of the active simulated run.
type Run struct {
	cfg       Config
	tape      *Tape
	tasks     [maxTasks]*Task
	ntasks    int32
	cur       int32
	now       int64
	steps     int64
	switches  int64
	swSig     uint64
	evHash    uint64
	nev       int64
	trace     []Event
	ntrace    int
	aborting  bool
	verdict   Verdict
	epoch     uint64
	preemptIn int64
	pctChange [8]int64
	realDone  sync.WaitGroup
	finished  chan struct{}
	panicMu   sync.Mutex
	panics    []TaskPanic
	unstamped int64
	mapRanges int64
	mapPerms  int64
	ioIndex   int64
	progress  int64 // bumped by every scheduling event that is not a channel re-try
	yields    int64
	maxYields int64
}

var (
	run      *Run
	epochCtr uint64
)

// TraceAll makes every Exec keep its event log (set while a failing tape is
// re-run for the replay file).
var TraceAll bool

type abortT struct{}

var abortSentinel = &abortT{}

// IsAbort reports whether a recovered panic value is the simulator's own
// unwinding signal (run aborted: deadlock, step limit or simulated kill).
func IsAbort(v interface{}) bool { return v == interface{}(abortSentinel) }

// Active reports whether a simulated run is in progress.
//
//go:norace
func Active() bool { return run != nil }

// Aborting reports whether the active run is being torn down.
//
//go:norace
func Aborting() bool { r := run; return r != nil && r.aborting }

// T returns the tape of the active run (nil outside a run).
//
//go:norace
func T() *Tape {
	if r := run; r != nil {
		return r.tape
	}
	return nil
}

// NowNs returns simulated time in nanoseconds.
//
//go:norace
func NowNs() int64 {
	if r := run; r != nil {
		return r.now
	}
	return 0
}

// CurTask returns the id of the running task (-1 outside a run).
//
//go:norace
func CurTask() int {
	if r := run; r != nil {
		return int(r.cur)
	}
	return -1
}

// Seq returns the global event sequence number (for stamping histories).
//
//go:norace
func Seq() int64 {
	if r := run; r != nil {
		return r.nev
	}
	return 0
}

// Exec runs main as task 0 of a new simulated run and returns when every
// task has finished or the run was aborted. It must be called from a
// goroutine that is not itself a simulated task.
func Exec(cfg Config, main func()) Result {
	if run != nil {
		panic("simrt: nested Exec")
	}
	if cfg.Tape == nil {
		cfg.Tape = NewTape(1)
	}
	if cfg.MaxSteps == 0 {
		cfg.MaxSteps = 4_000_000
	}
	epochCtr++
	r := &Run{cfg: cfg, tape: cfg.Tape, epoch: epochCtr, finished: make(chan struct{}), maxYields: cfg.MaxYields}
	if r.maxYields == 0 {
		r.maxYields = 50_000_000
	}
	if TraceAll {
		cfg.Trace = true
	}
	if cfg.Trace {
		n := cfg.TraceCap
		if n == 0 {
			n = 1 << 16
		}
		r.trace = make([]Event, n)
	}
	if cfg.PreemptMean > 0 {
		r.drawPreempt()
	}
	if cfg.Strategy == StratPCT {
		est := cfg.PCTSteps
		if est < 16 {
			est = 16
		}
		for i := 0; i < cfg.PCTDepth-1 && i < len(r.pctChange); i++ {
			r.pctChange[i] = int64(1 + cfg.Tape.Choose(KPrio, est))
		}
	}
	resetStamps()
	t := r.newTask("main")
	r.cur = t.id
	run = r
	r.realDone.Add(1)
	go r.taskMain(t, main)
	// Start task 0: the harness is not a task, it just wakes it.
	t.wake <- struct{}{}
	<-r.finished
	r.realDone.Wait()
	run = nil
	res := Result{
		Verdict: r.verdict, Steps: r.steps, Switches: r.switches, SwitchSig: r.swSig,
		EventHash: r.evHash, Events: r.nev, SimTimeNs: r.now, Unstamped: r.unstamped,
		Tasks: int(r.ntasks), Panics: r.panics, MapRanges: r.mapRanges, MapPerms: r.mapPerms, Yields: r.yields,
	}
	if cfg.Trace {
		res.Trace = r.trace[:r.ntrace]
	}
	if r.verdict == Deadlock || r.verdict == StepLimit {
		res.Blocked = r.describeBlocked()
	}
	return res
}

func (r *Run) describeBlocked() string {
	var sb strings.Builder
	for i := int32(0); i < r.ntasks; i++ {
		t := r.tasks[i]
		if t.wk != wkNone {
			fmt.Fprintf(&sb, "task %d(%s) waits on %s; ", t.id, t.name, wkNames[t.wk])
		}
	}
	return sb.String()
}

//go:norace
func (r *Run) newTask(name string) *Task {
	if r.ntasks >= maxTasks {
		panic("simrt: too many tasks")
	}
	t := &Task{id: r.ntasks, wake: make(chan struct{}, 1), name: name, done: make(chan struct{})}
	if r.cfg.Strategy == StratPCT {
		t.prio = int64(16 + r.tape.Choose(KPrio, 1<<16))
	}
	r.tasks[r.ntasks] = t
	r.ntasks++
	return t
}

func (r *Run) taskMain(t *Task, fn func()) {
	defer r.realDone.Done()
	raceDisable()
	<-t.wake
	raceEnable()
	t.started = true
	defer func() {
		if e := recover(); e != nil && !IsAbort(e) {
			r.panicMu.Lock()
			r.panics = append(r.panics, TaskPanic{Task: t.name, Value: fmt.Sprint(e), Stack: string(debug.Stack())})
			r.panicMu.Unlock()
		}
		close(t.done)
		r.exitTask(t)
	}()
	if r.isAborting() {
		return
	}
	fn()
}

//go:norace
func (r *Run) isAborting() bool { return r.aborting }

// exitTask marks t done and passes the baton on (or ends the run).
//
//go:norace
func (r *Run) exitTask(t *Task) {
	t.state = tsDone
	t.wk = wkNone
	r.progress++
	r.ev("exit", 0, 0)
	if r.aborting {
		r.abortChain()
		return
	}
	next := r.pick(nil)
	if next == nil {
		// pick already decided: finished, or aborted (deadlock).
		if r.aborting {
			r.abortChain()
			return
		}
		r.finish()
		return
	}
	r.handoffNoPark(next)
}

//go:norace
func (r *Run) finish() {
	close(r.finished)
}

// abortChain wakes one task that has not finished yet so that it unwinds;
// the last one closes the run.
//
//go:norace
func (r *Run) abortChain() {
	for i := int32(0); i < r.ntasks; i++ {
		t := r.tasks[i]
		if t.state != tsDone {
			t.state = tsRunnable
			t.wk = wkNone
			r.handoffNoPark(t)
			return
		}
	}
	r.finish()
}

//go:norace
func (r *Run) handoffNoPark(next *Task) {
	r.cur = next.id
	raceDisable()
	next.wake <- struct{}{}
	raceEnable()
}

//go:norace
func (r *Run) switchTo(self, next *Task) {
	if next == self {
		return
	}
	r.switches++
	r.swSig = (r.swSig ^ uint64(next.id+1) ^ uint64(r.steps)<<20) * 0x100000001b3
	if r.trace != nil && r.ntrace < len(r.trace) {
		r.trace[r.ntrace] = Event{Seq: r.nev, Task: r.cur, Kind: "switch-to", A: int64(next.id)}
		r.ntrace++
	}
	r.cur = next.id
	raceDisable()
	next.wake <- struct{}{}
	<-self.wake
	raceEnable()
	if r.aborting {
		panic(abortSentinel)
	}
}

//go:norace
func (r *Run) ready(t *Task) bool {
	switch t.state {
	case tsDone:
		return false
	case tsRunnable:
		return true
	}
	switch t.wk {
	case wkMutex:
		m := (*LockModel)(t.wobj)
		return !m.locked && m.readers == 0
	case wkRLock:
		m := (*LockModel)(t.wobj)
		return !m.locked && !r.writerPending(m)
	case wkWG:
		return (*WGModel)(t.wobj).n <= 0
	case wkOnce:
		return (*OnceModel)(t.wobj).state != 1
	case wkTimer:
		return r.now >= t.warg
	case wkJoin:
		return (*Task)(t.wobj).state == tsDone
	case wkPipe:
		p := (*PipeModel)(t.wobj)
		return p.Avail > 0 || p.Closed
	case wkCond:
		return (*CondModel)(t.wobj).signalled > t.warg
	case wkFlag:
		return *(*int32)(t.wobj) != 0
	case wkChan:
		return r.progress > t.warg
	}
	return false
}

// pick chooses the next task to run. self is the yielding task if it is
// still runnable (nil if it blocked or exited). Returns nil if the run is
// over (finished or aborted).
//
//go:norace
func (r *Run) pick(self *Task) *Task {
	for {
		var cand [maxTasks]int32
		n := 0
		live := 0
		var minTimer int64 = -1
		for i := int32(0); i < r.ntasks; i++ {
			t := r.tasks[i]
			if t.state == tsDone {
				continue
			}
			live++
			if t == self {
				continue
			}
			if r.ready(t) {
				cand[n] = i
				n++
			} else if t.wk == wkTimer && (minTimer < 0 || t.warg < minTimer) {
				minTimer = t.warg
			}
		}
		if self != nil {
			if n == 0 {
				return self
			}
			return r.choose(self, cand[:n])
		}
		if n > 0 {
			return r.choose(nil, cand[:n])
		}
		if live == 0 {
			return nil
		}
		if minTimer >= 0 {
			r.now = minTimer
			r.ev("clock", minTimer, 0)
			continue
		}
		r.verdict = Deadlock
		r.aborting = true
		return nil
	}
}

//go:norace
func (r *Run) choose(self *Task, cand []int32) *Task {
	switch r.cfg.Strategy {
	case StratPCT:
		best := self
		for _, i := range cand {
			t := r.tasks[i]
			if best == nil || t.prio > best.prio {
				best = t
			}
		}
		return best
	default:
		if self != nil {
			// Caller already decided to switch.
			return r.tasks[cand[r.tape.Choose(KPick, len(cand))]]
		}
		return r.tasks[cand[r.tape.Choose(KPick, len(cand))]]
	}
}

//go:norace
func (r *Run) drawPreempt() {
	v := r.tape.Choose(KPreempt, 2*r.cfg.PreemptMean)
	if v == 0 {
		r.preemptIn = -1 // never
	} else {
		r.preemptIn = int64(v)
	}
}

//go:norace
func (r *Run) ev(kind string, a, b int64) { r.record(kind, a, b, "") }

//go:norace
func (r *Run) evs(kind string, s string, a int64) { r.record(kind, a, 0, s) }

//go:norace
func (r *Run) record(kind string, a, b int64, s string) {
	h := r.evHash
	for i := 0; i < len(kind); i++ {
		h = (h ^ uint64(kind[i])) * 0x100000001b3
	}
	for i := 0; i < len(s); i++ {
		h = (h ^ uint64(s[i])) * 0x100000001b3
	}
	h = (h ^ uint64(a)) * 0x100000001b3
	h = (h ^ uint64(b)) * 0x100000001b3
	h = (h ^ uint64(r.cur)) * 0x100000001b3
	r.evHash = h
	if r.trace != nil && r.ntrace < len(r.trace) {
		r.trace[r.ntrace] = Event{Seq: r.nev, Task: r.cur, Kind: kind, A: a, B: b, S: s}
		r.ntrace++
	}
	r.nev++
}

// Log records an event in the run's event log (and hash). It never draws
// from the tape and never reads a clock.
//
//go:norace
func Log(kind string, s string, a int64) {
	if r := run; r != nil {
		r.evs(kind, s, a)
	}
}

// step accounts one scheduling point; aborts the run past the cap.
//
//go:norace
func (r *Run) step() {
	r.steps++
	if r.steps > r.cfg.MaxSteps && !r.aborting {
		r.verdict = StepLimit
		r.aborting = true
		panic(abortSentinel)
	}
	if r.cfg.Strategy == StratPCT {
		for i := 0; i < len(r.pctChange); i++ {
			if r.pctChange[i] != 0 && r.pctChange[i] == r.steps {
				r.tasks[r.cur].prio = int64(i + 1)
			}
		}
	}
}

// point is a scheduling point at which the running task stays runnable.
//
//go:norace
func (r *Run) point(kind string, a int64) {
	if r.aborting {
		return
	}
	self := r.tasks[r.cur]
	r.ev(kind, a, 0)
	r.progress++
	r.step()
	switch r.cfg.Strategy {
	case StratRunToBlock:
		return
	case StratRandom:
		if r.cfg.SwitchT <= 0 || r.ntasks < 2 {
			return
		}
		// Avoid consuming tape when nobody else could run.
		others := false
		for i := int32(0); i < r.ntasks; i++ {
			t := r.tasks[i]
			if t != self && r.ready(t) {
				others = true
				break
			}
		}
		if !others {
			return
		}
		if r.tape.Choose(KSwitch, 256) < 256-r.cfg.SwitchT {
			return
		}
		r.switchTo(self, r.pick(self))
	case StratPCT:
		if r.ntasks < 2 {
			return
		}
		r.switchTo(self, r.pick(self))
	case StratEnum:
		if r.ntasks < 2 {
			return
		}
		others := false
		for i := int32(0); i < r.ntasks; i++ {
			t := r.tasks[i]
			if t != self && r.ready(t) {
				others = true
				break
			}
		}
		if !others {
			return
		}
		if r.tape.Choose(KSwitch, 2) == 0 {
			return
		}
		r.switchTo(self, r.pick(self))
	}
}

// block parks the running task until its wait condition holds.
//
//go:norace
func (r *Run) block(wk waitKind, obj unsafe.Pointer, arg int64) {
	if r.aborting {
		panic(abortSentinel)
	}
	self := r.tasks[r.cur]
	self.state = tsBlocked
	self.wk = wk
	self.wobj = obj
	self.warg = arg
	r.ev("block", int64(wk), 0)
	if wk != wkChan {
		r.progress++
	}
	r.step()
	for {
		next := r.pick(nil)
		if next == nil {
			// Deadlock (or nothing left): unwind.
			if !r.aborting {
				// Cannot be "finished": self is still live.
				r.verdict = Deadlock
				r.aborting = true
			}
			panic(abortSentinel)
		}
		if next == self {
			break
		}
		r.switchTo(self, next)
		if r.ready(self) {
			break
		}
		// Woken but condition lost again (another task took the lock first).
	}
	self.state = tsRunnable
	self.wk = wkNone
	self.wobj = nil
}

// ---- public scheduling API ----

// Go starts fn as a new simulated task (or a plain goroutine outside a run).
func Go(fn func()) { GoNamed("", fn) }

// GoNamed is Go with a task name for traces.
func GoNamed(name string, fn func()) {
	r := run
	if r == nil {
		go fn()
		return
	}
	if r.isAborting() {
		return
	}
	t := r.spawn(name)
	r.realDone.Add(1)
	go r.taskMain(t, fn)
	r.point("go", int64(t.id))
}

//go:norace
func (r *Run) spawn(name string) *Task {
	t := r.newTask(name)
	r.ev("spawn", int64(t.id), 0)
	return t
}

// Handle identifies a task started with GoJoinable.
type Handle struct{ t *Task }

// GoJoinable starts a task that the caller can Join. Outside a run it uses a
// real goroutine and a real channel.
func GoJoinable(name string, fn func()) *Handle {
	r := run
	if r == nil {
		panic("simrt: GoJoinable outside a run")
	}
	t := r.spawn(name)
	r.realDone.Add(1)
	go r.taskMain(t, fn)
	r.point("go", int64(t.id))
	return &Handle{t}
}

// Join blocks the calling task until h's task has finished. Like a real
// join (WaitGroup.Wait, channel receive) it orders the end of the joined task
// before the joiner's continuation for the race detector; it creates no edge
// between the joined tasks themselves.
func Join(h *Handle) {
	joinModel(h)
	if !Aborting() {
		<-h.t.done
	}
}

//go:norace
func joinModel(h *Handle) {
	r := run
	if r == nil {
		return
	}
	if r.aborting {
		return
	}
	if h.t.state == tsDone {
		return
	}
	r.block(wkJoin, unsafe.Pointer(h.t), 0)
}

// Yield is inserted at the entry of every function of the instrumented
// packages. Outside a run, and in runs without function-entry granularity,
// it costs one load and one compare.
//
//go:norace
func Yield(site uint32) {
	r := run
	if r == nil {
		return
	}
	// Every function entry of the instrumented packages counts towards the
	// hang cap, so an unbounded loop that calls anything is detected
	// deterministically (same tape, same verdict) and not by a wall clock.
	r.yields++
	if r.yields > r.maxYields && !r.aborting {
		r.verdict = StepLimit
		r.aborting = true
		panic(abortSentinel)
	}
	if r.preemptIn <= 0 || r.aborting {
		return
	}
	r.preemptIn--
	if r.preemptIn > 0 {
		return
	}
	r.drawPreempt()
	if r.ntasks < 2 {
		return
	}
	self := r.tasks[r.cur]
	r.ev("preempt", int64(site), 0)
	r.progress++
	r.step()
	next := r.pick(self)
	if next != self {
		// PCT picks by priority; for the others pick() drew from the tape.
		r.switchTo(self, next)
	}
}

// Point is a scheduling point (sync or I/O boundary) for the running task.
//
//go:norace
func Point(kind string, a int64) {
	if r := run; r != nil {
		r.point(kind, a)
	}
}

// SleepNs blocks the running task for d simulated nanoseconds.
//
//go:norace
func SleepNs(d int64) {
	r := run
	if r == nil || r.aborting {
		return
	}
	if d <= 0 {
		r.point("sleep0", 0)
		return
	}
	r.block(wkTimer, nil, r.now+d)
}

// Kill aborts the run: the simulated process dies. The calling task unwinds
// immediately; all other tasks unwind when they are next woken.
//
//go:norace
func Kill() {
	r := run
	if r == nil {
		return
	}
	if !r.aborting {
		r.verdict = Killed
		r.aborting = true
		r.ev("kill", 0, 0)
	}
	panic(abortSentinel)
}

// NextIO returns the 0-based global index of the next I/O (or plug-in) call
// of the run; fault plans address calls by this index.
//
//go:norace
func NextIO() int64 {
	r := run
	if r == nil {
		return -1
	}
	i := r.ioIndex
	r.ioIndex++
	return i
}

// PeekIO returns the index the next I/O call will get.
//
//go:norace
func PeekIO() int64 {
	if r := run; r != nil {
		return r.ioIndex
	}
	return 0
}

// WaitFlag blocks until *f != 0. f must only be written through SetFlag.
//
//go:norace
func WaitFlag(f *int32) {
	r := run
	if r == nil || r.aborting {
		return
	}
	if *f != 0 {
		return
	}
	r.block(wkFlag, unsafe.Pointer(f), 0)
}

//go:norace
func SetFlag(f *int32, v int32) { *f = v }

// ---- models of sync primitives (used by simsync) ----

type LockModel struct {
	epoch   uint64
	locked  bool
	owner   int32
	readers int32
}

type WGModel struct {
	epoch uint64
	n     int64
}

type OnceModel struct {
	epoch uint64
	state int32 // 0 idle, 1 running, 2 done
}

type CondModel struct {
	epoch     uint64
	waiters   int64
	signalled int64
}

type PipeModel struct {
	Avail  int64
	Closed bool
}

// Mode tells the simsync wrapper how to perform the real operation.
type Mode int

const (
	ModeReal  Mode = iota // perform the real operation normally
	ModeTry               // run is aborting: use the non-blocking variant / best effort
	ModeSkip              // run is aborting: skip the real operation
	ModePlain             // no run active: plain pass-through
)

//go:norace
func (m *LockModel) fresh(r *Run) {
	if m.epoch != r.epoch {
		m.epoch = r.epoch
		m.locked = false
		m.readers = 0
	}
}

// LockAcquire is called before the real Lock.
//
//go:norace
func LockAcquire(m *LockModel) Mode {
	r := run
	if r == nil {
		return ModePlain
	}
	m.fresh(r)
	if r.aborting {
		return ModeTry
	}
	r.point("lock", 0)
	for m.locked || m.readers > 0 {
		r.block(wkMutex, unsafe.Pointer(m), 0)
	}
	m.locked = true
	m.owner = r.cur
	return ModeReal
}

// LockTry is called instead of TryLock's real operation decision.
//
//go:norace
func LockTry(m *LockModel) (Mode, bool) {
	r := run
	if r == nil {
		return ModePlain, false
	}
	m.fresh(r)
	if r.aborting {
		return ModeTry, false
	}
	r.point("trylock", 0)
	if m.locked || m.readers > 0 {
		return ModeSkip, false
	}
	m.locked = true
	m.owner = r.cur
	return ModeReal, true
}

// LockNoteTry records the outcome of a real TryLock performed in ModeTry.
//
//go:norace
func LockNoteTry(m *LockModel, ok bool) {
	if ok {
		m.locked = true
	}
}

// LockRelease is called before the real Unlock; ModeSkip means the model
// does not hold the lock (only possible while aborting) and the real Unlock
// must be skipped.
//
//go:norace
func LockRelease(m *LockModel) Mode {
	r := run
	if r == nil {
		return ModePlain
	}
	m.fresh(r)
	if r.aborting {
		if !m.locked {
			return ModeSkip
		}
		m.locked = false
		return ModeReal
	}
	if !m.locked {
		// The real primitive would bring the whole process down with an
		// unrecoverable "fatal error"; in the simulation it is an ordinary
		// panic of the task, so that the run is recorded, replayed and shrunk.
		panic("fatal error: sync: unlock of unlocked mutex (reported by the lock model; the real runtime would abort the process)")
	}
	m.locked = false
	return ModeReal
}

// AfterRelease is the scheduling point after a real Unlock/Done.
//
//go:norace
func AfterRelease() {
	if r := run; r != nil {
		r.point("unlock", 0)
	}
}

// writerPending reports whether a Lock call is waiting for the current read
// holders of m to leave. sync.RWMutex then admits no further reader (a blocked
// Lock excludes new readers), which is what makes recursive read locking a
// deadlock. A writer waiting behind another writer has not announced itself
// yet and does not count.
//
//go:norace
func (r *Run) writerPending(m *LockModel) bool {
	if m.locked || m.readers == 0 {
		return false
	}
	for i := int32(0); i < r.ntasks; i++ {
		t := r.tasks[i]
		if t.state == tsBlocked && t.wk == wkMutex && t.wobj == unsafe.Pointer(m) {
			return true
		}
	}
	return false
}

//go:norace
func RLockAcquire(m *LockModel) Mode {
	r := run
	if r == nil {
		return ModePlain
	}
	m.fresh(r)
	if r.aborting {
		return ModeTry
	}
	r.point("rlock", 0)
	for m.locked || r.writerPending(m) {
		r.block(wkRLock, unsafe.Pointer(m), 0)
	}
	m.readers++
	return ModeReal
}

// RLockTry is LockTry for the read side: it fails while the lock is write
// held or a writer is waiting for the readers.
//
//go:norace
func RLockTry(m *LockModel) (Mode, bool) {
	r := run
	if r == nil {
		return ModePlain, false
	}
	m.fresh(r)
	if r.aborting {
		return ModeTry, false
	}
	r.point("tryrlock", 0)
	if m.locked || r.writerPending(m) {
		return ModeSkip, false
	}
	m.readers++
	return ModeReal, true
}

//go:norace
func RLockNoteTry(m *LockModel, ok bool) {
	if ok {
		m.readers++
	}
}

//go:norace
func RLockRelease(m *LockModel) Mode {
	r := run
	if r == nil {
		return ModePlain
	}
	m.fresh(r)
	if r.aborting {
		if m.readers <= 0 {
			return ModeSkip
		}
		m.readers--
		return ModeReal
	}
	if m.readers <= 0 {
		panic("fatal error: sync: RUnlock of unlocked RWMutex (reported by the lock model; the real runtime would abort the process)")
	}
	m.readers--
	return ModeReal
}

//go:norace
func (m *WGModel) fresh(r *Run) {
	if m.epoch != r.epoch {
		m.epoch = r.epoch
		m.n = 0
	}
}

// WGAdd is called before the real Add; ModeSkip means skip it.
//
//go:norace
func WGAdd(m *WGModel, delta int) Mode {
	r := run
	if r == nil {
		return ModePlain
	}
	m.fresh(r)
	if r.aborting {
		if m.n+int64(delta) < 0 {
			return ModeSkip
		}
		m.n += int64(delta)
		return ModeReal
	}
	m.n += int64(delta)
	return ModeReal
}

// WGWait is called before the real Wait.
//
//go:norace
func WGWait(m *WGModel) Mode {
	r := run
	if r == nil {
		return ModePlain
	}
	m.fresh(r)
	if r.aborting {
		return ModeSkip
	}
	r.point("wgwait", 0)
	for m.n > 0 {
		r.block(wkWG, unsafe.Pointer(m), 0)
	}
	return ModeReal
}

//go:norace
func (m *OnceModel) fresh(r *Run) {
	if m.epoch != r.epoch {
		m.epoch = r.epoch
		m.state = 0
	}
}

// OnceEnter is called before the real Once.Do. It blocks while another task
// is inside the Do.
//
//go:norace
func OnceEnter(m *OnceModel) Mode {
	r := run
	if r == nil {
		return ModePlain
	}
	m.fresh(r)
	if r.aborting {
		return ModeSkip
	}
	r.point("once", 0)
	for m.state == 1 {
		r.block(wkOnce, unsafe.Pointer(m), 0)
	}
	if m.state == 0 {
		m.state = 1
	}
	return ModeReal
}

//go:norace
func OnceLeave(m *OnceModel) {
	r := run
	if r == nil {
		return
	}
	m.state = 2
}

//go:norace
func (m *CondModel) fresh(r *Run) {
	if m.epoch != r.epoch {
		m.epoch = r.epoch
		m.waiters = 0
		m.signalled = 0
	}
}

// CondWait blocks until a Signal/Broadcast issued after the call.
//
//go:norace
func CondWait(m *CondModel) bool {
	r := run
	if r == nil || r.aborting {
		return false
	}
	m.fresh(r)
	ticket := m.waiters
	m.waiters++
	r.block(wkCond, unsafe.Pointer(m), ticket)
	return true
}

//go:norace
func CondSignal(m *CondModel, all bool) {
	r := run
	if r == nil {
		return
	}
	m.fresh(r)
	if all {
		m.signalled = m.waiters
	} else if m.signalled < m.waiters {
		m.signalled++
	}
	r.point("signal", 0)
}

// PipeWait blocks until the pipe has data or is closed.
//
//go:norace
func PipeWait(p *PipeModel) {
	r := run
	if r == nil || r.aborting {
		return
	}
	for p.Avail <= 0 && !p.Closed {
		r.block(wkPipe, unsafe.Pointer(p), 0)
	}
}

//go:norace
func PipeSet(p *PipeModel, avail int64, closed bool) {
	p.Avail = avail
	p.Closed = closed
}
