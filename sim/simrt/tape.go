package simrt

// The choice tape: every nondeterministic decision of a simulated run is one
// Choose call. In generate mode the value comes from a splitmix64 PRNG seeded
// from the run seed and is recorded; in replay mode it is read back (past the
// end: 0, which by construction is always the benign choice: keep running the
// current task, no fault, canonical order, smallest workload element).
//
// All code here is //go:norace and uses only index assignment on slices made
// with make (no append, no maps): the tape is shared by all simulated tasks
// without any race-visible synchronisation, see sched.go.

// Kind labels a choice, for statistics and readable traces only.
type Kind uint8

const (
	KGen     Kind = iota // workload generation
	KSwitch              // switch away from the running task at a sync / I/O point?
	KPick                // which runnable task
	KPreempt             // distance (in function-entry yields) to the next preemption
	KMapSeed             // permutation seed for one range-over-map
	KFault               // fault decision at an I/O or plug-in call
	KLatency             // simulated latency
	KPrio                // PCT priorities / change points
	KCfg                 // per-run swarm configuration
	nKinds
)

var kindNames = [...]string{"gen", "switch", "pick", "preempt", "mapseed", "fault", "latency", "prio", "cfg"}

func (k Kind) String() string {
	if int(k) < len(kindNames) {
		return kindNames[k]
	}
	return "?"
}

// Tape is a recorded or replayed choice sequence.
type Tape struct {
	Vals   []uint32
	Kinds  []uint8
	Ns     []uint32 // domain size of each draw
	n      int
	pos    int
	replay bool
	rng    uint64
	// Counts per kind of choices whose value was non-zero (i.e. not benign).
	NonZero [nKinds]int64
	Drawn   [nKinds]int64
}

// NewTape returns a generating tape.
func NewTape(seed uint64) *Tape {
	// The seed is hashed (splitmix64 finaliser) before it becomes the PRNG
	// state: the state advances by a fixed increment per draw, so un-hashed
	// consecutive seeds would produce the same stream shifted by one draw.
	z := seed + 0x9E3779B97F4A7C15
	z = (z ^ (z >> 30)) * 0xBF58476D1CE4E5B9
	z = (z ^ (z >> 27)) * 0x94D049BB133111EB
	z ^= z >> 31
	return &Tape{Vals: make([]uint32, 1024), Kinds: make([]uint8, 1024), Ns: make([]uint32, 1024), rng: z}
}

// ReplayTape returns a tape that replays vals.
func ReplayTape(vals []uint32) *Tape {
	t := &Tape{Vals: make([]uint32, len(vals)+1024), Kinds: make([]uint8, len(vals)+1024), Ns: make([]uint32, len(vals)+1024), replay: true}
	for i, v := range vals {
		t.Vals[i] = v
	}
	t.n = len(vals)
	return t
}

//go:norace
func (t *Tape) next64() uint64 {
	t.rng += 0x9E3779B97F4A7C15
	z := t.rng
	z = (z ^ (z >> 30)) * 0xBF58476D1CE4E5B9
	z = (z ^ (z >> 27)) * 0x94D049BB133111EB
	return z ^ (z >> 31)
}

//go:norace
func (t *Tape) grow() {
	nv := make([]uint32, 2*len(t.Vals))
	nk := make([]uint8, 2*len(t.Vals))
	nn := make([]uint32, 2*len(t.Vals))
	for i := 0; i < len(t.Vals); i++ {
		nv[i] = t.Vals[i]
		nk[i] = t.Kinds[i]
		nn[i] = t.Ns[i]
	}
	t.Vals, t.Kinds, t.Ns = nv, nk, nn
}

// Choose returns a value in [0,n). n<=1 returns 0 without consuming tape.
//
//go:norace
func (t *Tape) Choose(k Kind, n int) int {
	if n <= 1 {
		return 0
	}
	var v uint32
	if t.replay {
		if t.pos < t.n {
			v = t.Vals[t.pos] % uint32(n)
		}
		if t.pos >= len(t.Vals) {
			t.grow()
		}
		// Normalise so that the consumed tape is what Used() reports.
		t.Vals[t.pos] = v
		t.Kinds[t.pos] = uint8(k)
		t.Ns[t.pos] = uint32(n)
		t.pos++
	} else {
		v = uint32(t.next64() % uint64(n))
		if t.pos >= len(t.Vals) {
			t.grow()
		}
		t.Vals[t.pos] = v
		t.Kinds[t.pos] = uint8(k)
		t.Ns[t.pos] = uint32(n)
		t.pos++
		t.n = t.pos
	}
	t.Drawn[k]++
	if v != 0 {
		t.NonZero[k]++
	}
	return int(v)
}

// Used returns the consumed prefix of the tape (a copy).
func (t *Tape) Used() []uint32 {
	out := make([]uint32, t.pos)
	copy(out, t.Vals[:t.pos])
	return out
}

// UsedKinds returns the kinds of the consumed prefix (a copy).
func (t *Tape) UsedKinds() []uint8 {
	out := make([]uint8, t.pos)
	copy(out, t.Kinds[:t.pos])
	return out
}

// UsedNs returns the domain sizes of the consumed prefix (a copy).
func (t *Tape) UsedNs() []uint32 {
	out := make([]uint32, t.pos)
	copy(out, t.Ns[:t.pos])
	return out
}

// Pos returns the number of choices consumed so far.
//
//go:norace
func (t *Tape) Pos() int { return t.pos }

// --- convenience generators (used by engines, in harness or task context) ---

// Bool returns true with probability about pct/100; 0 on the tape means false.
//
//go:norace
func (t *Tape) Bool(k Kind, pct int) bool {
	if pct <= 0 {
		return false
	}
	if pct >= 100 {
		pct = 99
	}
	return t.Choose(k, 100) >= 100-pct
}

// Range returns a value in [lo,hi].
//
//go:norace
func (t *Tape) Range(k Kind, lo, hi int) int {
	if hi <= lo {
		return lo
	}
	return lo + t.Choose(k, hi-lo+1)
}
