//go:build !race

package simrt

import "unsafe"

// RaceBuild reports whether the binary was built with -race.
const RaceBuild = false

func raceDisable() {}
func raceEnable()  {}

func RaceAcquire(p unsafe.Pointer)      {}
func RaceReleaseMerge(p unsafe.Pointer) {}
