package simos

import (
	"syscall"

	"github.com/google/pprof/internal/verifsim/simrt"
)

// The simulated kernel: a flat table of nodes, an environment, a fault plan
// and an I/O log. It is shared by all simulated tasks without any
// race-visible synchronisation (a real kernel does not order user memory
// either), so everything here is //go:norace and uses only plain loads and
// stores on make()-allocated slices: no maps, no append, no copy().

type node struct {
	path string
	dir  bool
	live bool
	data []byte // len = file size; capacity managed by setSize
	mode uint32
	gen  int64 // bumped on every content change
}

// Op codes of simulated system calls.
const (
	OpOpen = iota
	OpCreate
	OpRead
	OpWrite
	OpClose
	OpStat
	OpMkdir
	OpRemove
	OpRename
	OpSync
	OpTruncate
	OpReadDir
	OpChmod
	OpLink
	nOps
)

var opNames = [...]string{"open", "create", "read", "write", "close", "stat", "mkdir", "remove", "rename", "sync", "truncate", "readdir", "chmod", "link"}

var ioKinds = [...]string{"io:open", "io:create", "io:read", "io:write", "io:close", "io:stat", "io:mkdir", "io:remove", "io:rename", "io:sync", "io:truncate", "io:readdir", "io:chmod", "io:link"}

func OpName(op int) string {
	if op >= 0 && op < len(opNames) {
		return opNames[op]
	}
	return "?"
}

// Fault kinds.
const (
	FNone        = iota
	FErr         // the call fails with Errno before having any effect
	FShortWrite  // write: the first Arg bytes are written, then Errno
	FCrashBefore // the process is killed before the call has any effect
	FCrashAfter  // the process is killed right after the call took effect
	FCrashMid    // write: killed after the first Arg bytes reached the file
	FShortRead   // read: at most Arg (>=1) bytes are returned
	FReadErr     // read: Errno after Arg bytes of this read
)

var faultNames = [...]string{"none", "err", "shortwrite", "crash-before", "crash-after", "crash-mid-write", "shortread", "readerr"}

func FaultName(k int) string { return faultNames[k] }

// Fault addresses one simulated system call by its global index in the run.
type Fault struct {
	At    int64 // I/O call index (simrt.NextIO order); -1 = never
	Kind  int
	Arg   int
	Errno syscall.Errno
}

// PathFault makes calls of one op on one (cleaned) path fail, from the
// After-th such call on.
type PathFault struct {
	Path  string
	Op    int
	Kind  int
	Arg   int
	Errno syscall.Errno
	After int
	// Prefix makes Path match every path that starts with it.
	Prefix bool
	seen   int
}

// IOCall is one entry of the I/O log.
type IOCall struct {
	Index int64
	Task  int
	Op    int
	Path  string
	N     int // bytes requested (write) / returned (read)
	Fault int
}

type kernel struct {
	nodes  []node
	nnodes int
	env    []string // k, v, k, v
	nenv   int

	plan        []Fault
	nplan       int
	pathFaults  []PathFault
	npathFaults int
	// random fault mode: at each eligible call Choose(KFault,1000) >= 1000-rate
	rate     int
	rateOps  [nOps]bool
	shortAll bool // every read returns at most 1 byte... (Arg of plan overrides)

	log    []IOCall
	nlog   int
	logOn  bool
	fired  [len(faultNames)]int64
	opsCnt [nOps]int64

	stdout, stderr []byte
	nout, nerr     int
	tmpCtr         int64
	base           int64 // plan and log indices are relative to this I/O index
	fullFrom       int64 // >=0: from this (relative) I/O index on the disk is full
	fullCreates    bool
	fullErrno      syscall.Errno
	firedFull      int64
	exitCode       int
	exited         bool
}

var k = newKernel()

func newKernel() *kernel {
	kk := &kernel{nodes: make([]node, 64), env: make([]string, 64), plan: make([]Fault, 16), log: make([]IOCall, 4096), fullFrom: -1}
	kk.mkdirRaw("/")
	return kk
}

//go:norace
func (kk *kernel) lookup(p string) int {
	for i := 0; i < kk.nnodes; i++ {
		if kk.nodes[i].live && kk.nodes[i].path == p {
			return i
		}
	}
	return -1
}

//go:norace
func (kk *kernel) alloc() int {
	// Slots are never reused within a run: an open File keeps addressing its
	// node after an unlink or a rename over it (POSIX semantics).
	if kk.nnodes == len(kk.nodes) {
		nn := make([]node, 2*len(kk.nodes))
		for i := 0; i < kk.nnodes; i++ {
			nn[i] = kk.nodes[i]
		}
		kk.nodes = nn
	}
	kk.nnodes++
	return kk.nnodes - 1
}

//go:norace
func (kk *kernel) mkdirRaw(p string) {
	if kk.lookup(p) >= 0 {
		return
	}
	i := kk.alloc()
	kk.nodes[i] = node{path: p, dir: true, live: true, mode: 0755}
}

//go:norace
func parentOf(p string) string {
	for i := len(p) - 1; i > 0; i-- {
		if p[i] == '/' {
			return p[:i]
		}
	}
	return "/"
}

//go:norace
func (kk *kernel) parentOK(p string) syscall.Errno {
	if p == "/" {
		return 0
	}
	i := kk.lookup(parentOf(p))
	if i < 0 {
		return syscall.ENOENT
	}
	if !kk.nodes[i].dir {
		return syscall.ENOTDIR
	}
	return 0
}

//go:norace
func (n *node) setSize(sz int) {
	if sz <= cap(n.data) {
		old := len(n.data)
		n.data = n.data[:sz]
		for i := old; i < sz; i++ {
			n.data[i] = 0
		}
		return
	}
	c := 2 * cap(n.data)
	if c < sz {
		c = sz
	}
	if c < 64 {
		c = 64
	}
	nd := make([]byte, sz, c)
	for i := 0; i < len(n.data); i++ {
		nd[i] = n.data[i]
	}
	n.data = nd
}

// writeAt copies p into the node at off, growing it.
//
//go:norace
func (n *node) writeAt(p []byte, off int64) {
	end := int(off) + len(p)
	if end > len(n.data) {
		n.setSize(end)
	}
	for i := 0; i < len(p); i++ {
		n.data[int(off)+i] = p[i]
	}
	n.gen++
}

//go:norace
func (n *node) readAt(p []byte, off int64) int {
	if off >= int64(len(n.data)) {
		return 0
	}
	c := 0
	for i := 0; i < len(p) && int(off)+i < len(n.data); i++ {
		p[i] = n.data[int(off)+i]
		c++
	}
	return c
}

// ---- fault decision ----

type decision struct {
	kind  int
	arg   int
	errno syscall.Errno
	index int64
}

// enter is the common prologue of every simulated system call: scheduling
// point, I/O index, fault decision, log entry.
//
//go:norace
func (kk *kernel) enter(op int, path string, n int) decision {
	d := decision{index: -1}
	if !simrt.Active() {
		return d
	}
	if simrt.Aborting() {
		d.kind = FErr
		d.errno = syscall.EIO
		return d
	}
	idx := simrt.NextIO()
	d.index = idx
	simrt.Log(ioKinds[op], path, idx)
	simrt.Point("io", idx)
	if simrt.Aborting() {
		d.kind = FErr
		d.errno = syscall.EIO
		return d
	}
	kk.opsCnt[op]++
	for i := 0; i < kk.nplan; i++ {
		if kk.plan[i].At == idx-kk.base {
			d.kind = kk.plan[i].Kind
			d.arg = kk.plan[i].Arg
			d.errno = kk.plan[i].Errno
		}
	}
	for i := 0; i < kk.npathFaults; i++ {
		pf := &kk.pathFaults[i]
		match := pf.Op == op && (pf.Path == path || (pf.Prefix && len(path) >= len(pf.Path) && path[:len(pf.Path)] == pf.Path))
		if d.kind == FNone && match && (pf.After <= 0 || pf.seen >= pf.After) {
			d.kind = pf.Kind
			d.arg = pf.Arg
			d.errno = pf.Errno
		}
		if match {
			pf.seen++
		}
	}
	if d.kind == FNone && kk.fullFrom >= 0 && idx-kk.base >= kk.fullFrom && (op == OpWrite || (kk.fullCreates && (op == OpCreate || op == OpMkdir))) {
		// the disk stays full: every later write (and creation) fails too
		d.kind = FErr
		d.errno = kk.fullErrno
		kk.firedFull++
	}
	if d.kind == FNone && kk.rate > 0 && kk.rateOps[op] {
		t := simrt.T()
		if t.Choose(simrt.KFault, 1000) >= 1000-kk.rate {
			d = kk.randomFault(op, n, idx)
		}
	}
	if d.kind == FNone && kk.shortAll && op == OpRead && n > 1 {
		d.kind = FShortRead
		d.arg = 1
	}
	// Normalise faults that make no sense for this call.
	switch d.kind {
	case FShortWrite, FCrashMid:
		if op != OpWrite {
			d.kind = FNone
		} else if d.arg >= n {
			if d.kind == FCrashMid {
				d.kind = FCrashAfter
			} else {
				d.kind = FNone
			}
		}
	case FShortRead, FReadErr:
		if op != OpRead {
			d.kind = FNone
		}
	}
	if d.kind != FNone {
		kk.fired[d.kind]++
	}
	if kk.logOn {
		if kk.nlog == len(kk.log) {
			nl := make([]IOCall, 2*len(kk.log))
			for i := 0; i < kk.nlog; i++ {
				nl[i] = kk.log[i]
			}
			kk.log = nl
		}
		kk.log[kk.nlog] = IOCall{Index: idx - kk.base, Task: simrt.CurTask(), Op: op, Path: path, N: n, Fault: d.kind}
		kk.nlog++
	}
	if d.kind == FCrashBefore {
		simrt.Kill()
	}
	return d
}

var errnoChoices = [...]syscall.Errno{syscall.ENOSPC, syscall.EIO, syscall.EACCES}

//go:norace
func (kk *kernel) randomFault(op, n int, idx int64) decision {
	t := simrt.T()
	d := decision{index: idx}
	d.errno = errnoChoices[t.Choose(simrt.KFault, len(errnoChoices))]
	switch op {
	case OpWrite:
		switch t.Choose(simrt.KFault, 2) {
		case 0:
			d.kind = FErr
		case 1:
			d.kind = FShortWrite
			d.arg = t.Choose(simrt.KFault, n+1)
		}
	case OpRead:
		switch t.Choose(simrt.KFault, 2) {
		case 0:
			d.kind = FShortRead
			d.arg = 1 + t.Choose(simrt.KFault, 7)
		case 1:
			d.kind = FReadErr
			d.errno = syscall.EIO
			d.arg = t.Choose(simrt.KFault, n+1)
		}
	default:
		d.kind = FErr
	}
	return d
}

// leave is the epilogue: a crash-after fault kills the process now.
//
//go:norace
func (kk *kernel) leave(d decision) {
	if d.kind == FCrashAfter {
		simrt.Kill()
	}
}

// ---- environment ----

//go:norace
func (kk *kernel) getenv(key string) (string, bool) {
	for i := 0; i+1 < kk.nenv; i += 2 {
		if kk.env[i] == key {
			return kk.env[i+1], true
		}
	}
	return "", false
}

//go:norace
func (kk *kernel) setenv(key, val string) {
	for i := 0; i+1 < kk.nenv; i += 2 {
		if kk.env[i] == key {
			kk.env[i+1] = val
			return
		}
	}
	if kk.nenv+2 > len(kk.env) {
		ne := make([]string, 2*len(kk.env))
		for i := 0; i < kk.nenv; i++ {
			ne[i] = kk.env[i]
		}
		kk.env = ne
	}
	kk.env[kk.nenv] = key
	kk.env[kk.nenv+1] = val
	kk.nenv += 2
}

//go:norace
func (kk *kernel) appendStream(which int, p []byte) {
	buf, n := &kk.stdout, &kk.nout
	if which == 2 {
		buf, n = &kk.stderr, &kk.nerr
	}
	if *n+len(p) > len(*buf) {
		c := 2 * len(*buf)
		if c < *n+len(p) {
			c = *n + len(p)
		}
		if c < 1024 {
			c = 1024
		}
		nb := make([]byte, c)
		for i := 0; i < *n; i++ {
			nb[i] = (*buf)[i]
		}
		*buf = nb
	}
	for i := 0; i < len(p); i++ {
		(*buf)[*n+i] = p[i]
	}
	*n += len(p)
}
