package simos

import (
	"path/filepath"
	"sort"
	"syscall"

	"github.com/google/pprof/internal/verifsim/simrt"
)

// Harness-facing control of the simulated kernel. None of these functions is
// a scheduling or fault point. They must be called while no run is active, or
// from the running task (they are norace like the rest of the kernel).

// Reset installs an empty disk, environment, fault plan and log.
//
//go:norace
func Reset() {
	k = newKernel()
	Cwd = "/sim/cwd"
	k.mkdirAllRaw("/sim/cwd")
	k.mkdirAllRaw("/tmp")
}

//go:norace
func (kk *kernel) mkdirAllRaw(p string) {
	if p == "/" || p == "" {
		return
	}
	kk.mkdirAllRaw(parentOf(p))
	kk.mkdirRaw(p)
}

// PutFile creates (or replaces) a file, creating parent directories.
//
//go:norace
func PutFile(name string, data []byte) {
	p := clean(name)
	k.mkdirAllRaw(parentOf(p))
	i := k.lookup(p)
	if i < 0 {
		i = k.alloc()
		k.nodes[i] = node{path: p, live: true, mode: 0644}
	}
	k.nodes[i].data = k.nodes[i].data[:0]
	k.nodes[i].writeAt(data, 0)
}

// MkdirRaw creates a directory and its parents.
//
//go:norace
func MkdirRaw(name string) { k.mkdirAllRaw(clean(name)) }

// GetFile returns a copy of a file's contents.
//
//go:norace
func GetFile(name string) ([]byte, bool) {
	i := k.lookup(clean(name))
	if i < 0 || k.nodes[i].dir {
		return nil, false
	}
	out := make([]byte, len(k.nodes[i].data))
	for j := range out {
		out[j] = k.nodes[i].data[j]
	}
	return out, true
}

// DeleteRaw removes a node without any checks.
//
//go:norace
func DeleteRaw(name string) {
	if i := k.lookup(clean(name)); i >= 0 {
		k.nodes[i].live = false
	}
}

// ListFiles returns the sorted paths of all regular files under prefix.
func ListFiles(prefix string) []string {
	out := listRaw(prefix)
	sort.Strings(out)
	return out
}

//go:norace
func listRaw(prefix string) []string {
	cnt := 0
	for i := 0; i < k.nnodes; i++ {
		n := &k.nodes[i]
		if n.live && !n.dir && len(n.path) >= len(prefix) && n.path[:len(prefix)] == prefix {
			cnt++
		}
	}
	out := make([]string, cnt)
	c := 0
	for i := 0; i < k.nnodes; i++ {
		n := &k.nodes[i]
		if n.live && !n.dir && len(n.path) >= len(prefix) && n.path[:len(prefix)] == prefix {
			out[c] = n.path
			c++
		}
	}
	return out
}

// Snapshot is a deep copy of the disk (not of env, plan or log).
type Snapshot struct{ nodes []node }

//go:norace
func TakeSnapshot() *Snapshot {
	s := &Snapshot{nodes: make([]node, k.nnodes)}
	for i := 0; i < k.nnodes; i++ {
		n := k.nodes[i]
		d := make([]byte, len(n.data))
		for j := range d {
			d[j] = n.data[j]
		}
		n.data = d
		s.nodes[i] = n
	}
	return s
}

//go:norace
func RestoreSnapshot(s *Snapshot) {
	k.nodes = make([]node, len(s.nodes)+64)
	for i := range s.nodes {
		n := s.nodes[i]
		d := make([]byte, len(n.data))
		for j := range d {
			d[j] = n.data[j]
		}
		n.data = d
		k.nodes[i] = n
	}
	k.nnodes = len(s.nodes)
}

// SetPlan installs the addressed faults of the next run (replacing any).
//
//go:norace
func SetPlan(faults []Fault) {
	k.plan = make([]Fault, len(faults)+1)
	for i := range faults {
		k.plan[i] = faults[i]
	}
	k.nplan = len(faults)
}

// SetDiskFullFrom makes every write (and, with creates, every file or
// directory creation) from the given I/O index on fail with errno: a fault
// that persists, unlike the one-shot faults of the plan. from < 0 turns it off.
//
//go:norace
func SetDiskFullFrom(from int64, creates bool, errno syscall.Errno) {
	k.fullFrom, k.fullCreates, k.fullErrno = from, creates, errno
}

// FiredFull returns how many calls failed because of SetDiskFullFrom since
// the last call of FiredFull.
//
//go:norace
func FiredFull() int64 { n := k.firedFull; k.firedFull = 0; return n }

// SetRandomFaults makes every call of the listed ops fail with probability
// permille/1000, drawn from the run's tape.
//
//go:norace
func SetRandomFaults(permille int, ops ...int) {
	k.rate = permille
	for i := range k.rateOps {
		k.rateOps[i] = false
	}
	for _, o := range ops {
		k.rateOps[o] = true
	}
}

// SetShortReads makes every read return at most one byte.
//
//go:norace
func SetShortReads(on bool) { k.shortAll = on }

// StartLog clears the I/O log and the counters and starts logging.
//
//go:norace
func StartLog() {
	k.nlog = 0
	k.logOn = true
	for i := range k.fired {
		k.fired[i] = 0
	}
	for i := range k.opsCnt {
		k.opsCnt[i] = 0
	}
}

// Log returns a copy of the I/O log.
//
//go:norace
func Log() []IOCall {
	out := make([]IOCall, k.nlog)
	for i := 0; i < k.nlog; i++ {
		out[i] = k.log[i]
	}
	return out
}

// Fired returns how often each fault kind actually fired since StartLog.
//
//go:norace
func Fired() map[string]int64 {
	out := map[string]int64{}
	for i := 1; i < len(k.fired); i++ {
		if k.fired[i] > 0 {
			out[faultNames[i]] = k.fired[i]
		}
	}
	return out
}

// OpCounts returns the number of simulated system calls per op since StartLog.
//
//go:norace
func OpCounts() map[string]int64 {
	out := map[string]int64{}
	for i := 0; i < nOps; i++ {
		if k.opsCnt[i] > 0 {
			out[opNames[i]] = k.opsCnt[i]
		}
	}
	return out
}

// TakeStdout returns and clears what was written to Stdout.
//
//go:norace
func TakeStdout() []byte {
	out := make([]byte, k.nout)
	for i := range out {
		out[i] = k.stdout[i]
	}
	k.nout = 0
	return out
}

// TakeStderr returns and clears what was written to Stderr.
//
//go:norace
func TakeStderr() []byte {
	out := make([]byte, k.nerr)
	for i := range out {
		out[i] = k.stderr[i]
	}
	k.nerr = 0
	return out
}

// Exited reports whether Exit was called and with which code.
//
//go:norace
func Exited() (bool, int) { return k.exited, k.exitCode }

// Base is filepath.Base (convenience for engines).
func Base(p string) string { return filepath.Base(p) }

// MarkBase makes fault-plan and log indices relative to the next I/O call.
//
//go:norace
func MarkBase() { k.base = simrt.PeekIO() }

// ClearFired zeroes the fault and op counters (the log is kept).
//
//go:norace
func ClearFired() {
	for i := range k.fired {
		k.fired[i] = 0
	}
	for i := range k.opsCnt {
		k.opsCnt[i] = 0
	}
}

// SetPathFaults installs path-addressed faults (replacing any).
//
//go:norace
func SetPathFaults(pf []PathFault) {
	k.pathFaults = make([]PathFault, len(pf)+1)
	for i := range pf {
		k.pathFaults[i] = pf[i]
		k.pathFaults[i].Path = clean(pf[i].Path)
		k.pathFaults[i].seen = 0
	}
	k.npathFaults = len(pf)
}
