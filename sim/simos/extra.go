package simos

import (
	"errors"
	"io"
	"io/fs"
	"os"
	"syscall"
)

// The rest of package os's exported surface, so that code under test that
// starts using one of these still builds against the seam. What has no
// meaning on the simulated disk fails with a plain error.

type ProcAttr = os.ProcAttr

const (
	ModeExclusive  = os.ModeExclusive
	ModeDevice     = os.ModeDevice
	ModeNamedPipe  = os.ModeNamedPipe
	ModeSocket     = os.ModeSocket
	ModeSetuid     = os.ModeSetuid
	ModeSetgid     = os.ModeSetgid
	ModeCharDevice = os.ModeCharDevice
	ModeSticky     = os.ModeSticky
	ModeIrregular  = os.ModeIrregular
	ModeType       = os.ModeType
)

var ErrNoDeadline = os.ErrNoDeadline

var errNotSimulated = errors.New("not supported on the simulated system")

//go:norace
func Clearenv() { k.nenv = 0 }

func Getegid() int                  { return 1000 }
func Getgroups() ([]int, error)     { return []int{1000}, nil }
func Lchown(string, int, int) error { return nil }

func FindProcess(pid int) (*Process, error) { return nil, errNotSimulated }
func StartProcess(name string, argv []string, attr *ProcAttr) (*Process, error) {
	return nil, &PathError{Op: "fork/exec", Path: name, Err: syscall.ENOSYS}
}
func NewFile(fd uintptr, name string) *File { return nil }
func Pipe() (r *File, w *File, err error)   { return nil, nil, syscall.ENOSYS }
func CopyFS(dir string, fsys fs.FS) error   { return errNotSimulated }

func (f *File) Chown(uid, gid int) error { return nil }
func (f *File) Chdir() error {
	if err := f.check("chdir"); err != nil {
		return err
	}
	return Chdir(f.name)
}
func (f *File) SyscallConn() (syscall.RawConn, error) { return nil, errNotSimulated }

// WriteTo copies the rest of the file to w through Read (faults apply).
func (f *File) WriteTo(w io.Writer) (int64, error) {
	buf := make([]byte, 32<<10)
	var n int64
	for {
		m, err := f.Read(buf)
		if m > 0 {
			k, werr := w.Write(buf[:m])
			n += int64(k)
			if werr != nil {
				return n, werr
			}
		}
		if err == io.EOF {
			return n, nil
		}
		if err != nil {
			return n, err
		}
	}
}
