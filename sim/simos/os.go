// Package simos has the API of package os as far as pprof (and plausible
// changes to it) use it, over an in-memory disk with a fault and crash model.
// Every call is a scheduling point and a fault point of the simulated run.
// There is no pass-through: code built against simos never touches the real
// filesystem.
package simos

import (
	"errors"
	"io"
	"io/fs"
	"os"
	"path/filepath"
	"sort"
	"strconv"
	"strings"
	"syscall"
	"time"

	"github.com/google/pprof/internal/verifsim/simrt"
)

type (
	FileInfo     = fs.FileInfo
	FileMode     = fs.FileMode
	PathError    = fs.PathError
	DirEntry     = fs.DirEntry
	LinkError    = os.LinkError
	SyscallError = os.SyscallError
	Signal       = os.Signal
	Process      = os.Process
	ProcessState = os.ProcessState
)

const (
	O_RDONLY = os.O_RDONLY
	O_WRONLY = os.O_WRONLY
	O_RDWR   = os.O_RDWR
	O_APPEND = os.O_APPEND
	O_CREATE = os.O_CREATE
	O_EXCL   = os.O_EXCL
	O_SYNC   = os.O_SYNC
	O_TRUNC  = os.O_TRUNC

	ModeDir       = fs.ModeDir
	ModePerm      = fs.ModePerm
	ModeAppend    = fs.ModeAppend
	ModeSymlink   = fs.ModeSymlink
	ModeTemporary = fs.ModeTemporary

	PathSeparator     = os.PathSeparator
	PathListSeparator = os.PathListSeparator
	DevNull           = os.DevNull
	SEEK_SET          = 0
	SEEK_CUR          = 1
	SEEK_END          = 2
)

var (
	ErrInvalid          = fs.ErrInvalid
	ErrPermission       = fs.ErrPermission
	ErrExist            = fs.ErrExist
	ErrNotExist         = fs.ErrNotExist
	ErrClosed           = fs.ErrClosed
	ErrDeadlineExceeded = os.ErrDeadlineExceeded
	ErrProcessDone      = os.ErrProcessDone

	IsExist         = os.IsExist
	IsNotExist      = os.IsNotExist
	IsPermission    = os.IsPermission
	IsTimeout       = os.IsTimeout
	IsPathSeparator = os.IsPathSeparator
	NewSyscallError = os.NewSyscallError

	Interrupt = os.Interrupt
	Kill      = os.Kill

	Args = []string{"pprof"}

	Stdin  = &File{name: "/dev/stdin", stream: 3}
	Stdout = &File{name: "/dev/stdout", stream: 1}
	Stderr = &File{name: "/dev/stderr", stream: 2}
)

// File mirrors *os.File.
type File struct {
	name   string
	path   string
	node   int
	off    int64
	flag   int
	closed bool
	stream int // 1 stdout, 2 stderr, 3 stdin
	dirPos int
}

//go:norace
func clean(name string) string {
	if name == "" {
		return ""
	}
	if !filepath.IsAbs(name) {
		name = filepath.Join(Cwd, name)
	}
	return filepath.Clean(name)
}

// Cwd is the simulated working directory.
var Cwd = "/sim/cwd"

//go:norace
func perr(op, path string, e syscall.Errno) error {
	return &fs.PathError{Op: op, Path: path, Err: e}
}

// ---- kernel operations (norace core) ----

//go:norace
func (kk *kernel) open(p string, flag int, perm uint32) (int, syscall.Errno) {
	i := kk.lookup(p)
	if i >= 0 {
		if flag&O_CREATE != 0 && flag&O_EXCL != 0 {
			return -1, syscall.EEXIST
		}
		if kk.nodes[i].dir {
			if flag&(O_WRONLY|O_RDWR) != 0 {
				return -1, syscall.EISDIR
			}
			return i, 0
		}
		if flag&O_TRUNC != 0 && flag&(O_WRONLY|O_RDWR) != 0 {
			kk.nodes[i].data = kk.nodes[i].data[:0]
			kk.nodes[i].gen++
		}
		return i, 0
	}
	if flag&O_CREATE == 0 {
		// Distinguish a missing parent component that is a file.
		if e := kk.parentOK(p); e == syscall.ENOTDIR {
			return -1, e
		}
		return -1, syscall.ENOENT
	}
	if e := kk.parentOK(p); e != 0 {
		return -1, e
	}
	i = kk.alloc()
	kk.nodes[i] = node{path: p, live: true, mode: perm}
	return i, 0
}

//go:norace
func (kk *kernel) nodeLive(i int, p string) bool {
	return i >= 0 && i < kk.nnodes && kk.nodes[i].live && kk.nodes[i].path == p
}

//go:norace
func (kk *kernel) remove(p string) syscall.Errno {
	i := kk.lookup(p)
	if i < 0 {
		return syscall.ENOENT
	}
	if kk.nodes[i].dir {
		pre := p + "/"
		for j := 0; j < kk.nnodes; j++ {
			if kk.nodes[j].live && len(kk.nodes[j].path) > len(pre) && kk.nodes[j].path[:len(pre)] == pre {
				return syscall.ENOTEMPTY
			}
		}
	}
	// Open files keep their data (POSIX unlink): the File keeps the slot
	// index but sees !live and works on a detached copy of the node.
	kk.nodes[i].live = false
	return 0
}

//go:norace
func (kk *kernel) rename(from, to string) syscall.Errno {
	i := kk.lookup(from)
	if i < 0 {
		return syscall.ENOENT
	}
	if e := kk.parentOK(to); e != 0 {
		return e
	}
	if from == to {
		return 0
	}
	j := kk.lookup(to)
	if j >= 0 {
		if kk.nodes[j].dir != kk.nodes[i].dir {
			if kk.nodes[j].dir {
				return syscall.EISDIR
			}
			return syscall.ENOTDIR
		}
		kk.nodes[j].live = false
	}
	if kk.nodes[i].dir {
		pre := from + "/"
		for x := 0; x < kk.nnodes; x++ {
			n := &kk.nodes[x]
			if n.live && len(n.path) > len(pre) && n.path[:len(pre)] == pre {
				n.path = to + "/" + n.path[len(pre):]
			}
		}
	}
	kk.nodes[i].path = to
	kk.nodes[i].gen++
	return 0
}

//go:norace
func (kk *kernel) mkdir(p string, perm uint32) syscall.Errno {
	if kk.lookup(p) >= 0 {
		return syscall.EEXIST
	}
	if e := kk.parentOK(p); e != 0 {
		return e
	}
	i := kk.alloc()
	kk.nodes[i] = node{path: p, dir: true, live: true, mode: perm}
	return 0
}

//go:norace
func (kk *kernel) statNode(p string) (found, dir bool, size int64, mode uint32) {
	i := kk.lookup(p)
	if i < 0 {
		return false, false, 0, 0
	}
	n := &kk.nodes[i]
	return true, n.dir, int64(len(n.data)), n.mode
}

//go:norace
func (kk *kernel) children(p string) []string {
	pre := p + "/"
	if p == "/" {
		pre = "/"
	}
	cnt := 0
	for j := 0; j < kk.nnodes; j++ {
		n := &kk.nodes[j]
		if n.live && len(n.path) > len(pre) && n.path[:len(pre)] == pre && !hasSlash(n.path[len(pre):]) {
			cnt++
		}
	}
	out := make([]string, cnt)
	c := 0
	for j := 0; j < kk.nnodes; j++ {
		n := &kk.nodes[j]
		if n.live && len(n.path) > len(pre) && n.path[:len(pre)] == pre && !hasSlash(n.path[len(pre):]) {
			out[c] = n.path[len(pre):]
			c++
		}
	}
	return out
}

//go:norace
func hasSlash(s string) bool {
	for i := 0; i < len(s); i++ {
		if s[i] == '/' {
			return true
		}
	}
	return false
}

//go:norace
func (kk *kernel) fileWrite(f *File, p []byte, d decision) (int, syscall.Errno) {
	n := len(p)
	var e syscall.Errno
	switch d.kind {
	case FErr:
		return 0, d.errno
	case FShortWrite, FCrashMid:
		n = d.arg
		e = d.errno
	}
	nd := &kk.nodes[f.node]
	off := f.off
	if f.flag&O_APPEND != 0 {
		off = int64(len(nd.data))
	}
	if n > 0 {
		nd.writeAt(p[:n], off)
	}
	f.off = off + int64(n)
	if d.kind == FCrashMid {
		simrt.Kill()
	}
	return n, e
}

//go:norace
func (kk *kernel) fileRead(f *File, p []byte, d decision) (int, syscall.Errno) {
	want := len(p)
	var e syscall.Errno
	switch d.kind {
	case FErr:
		return 0, d.errno
	case FShortRead:
		if d.arg < want && d.arg >= 1 {
			want = d.arg
		}
	case FReadErr:
		if d.arg < want {
			want = d.arg
		}
		e = d.errno
	}
	n := kk.nodes[f.node].readAt(p[:want], f.off)
	f.off += int64(n)
	if e != 0 && n < want {
		// hit EOF before the error position: plain EOF semantics
		e = 0
	}
	return n, e
}

//go:norace
func (kk *kernel) size(f *File) int64 { return int64(len(kk.nodes[f.node].data)) }

//go:norace
func (kk *kernel) truncate(i int, sz int64) {
	kk.nodes[i].setSize(int(sz))
	kk.nodes[i].gen++
}

// ---- public API ----

//go:norace
func OpenFile(name string, flag int, perm FileMode) (*File, error) {
	p := clean(name)
	op := OpOpen
	if flag&O_CREATE != 0 {
		op = OpCreate
	}
	d := k.enter(op, p, 0)
	if d.kind == FErr {
		return nil, perr("open", name, d.errno)
	}
	if p == "" {
		return nil, perr("open", name, syscall.ENOENT)
	}
	i, e := k.open(p, flag, uint32(perm))
	if e != 0 {
		return nil, perr("open", name, e)
	}
	f := &File{name: name, path: p, node: i, flag: flag}
	k.leave(d)
	return f, nil
}

//go:norace
func Open(name string) (*File, error) { return OpenFile(name, O_RDONLY, 0) }

//go:norace
func Create(name string) (*File, error) { return OpenFile(name, O_RDWR|O_CREATE|O_TRUNC, 0666) }

//go:norace
func (f *File) Name() string { return f.name }

//go:norace
func (f *File) check(op string) error {
	if f == nil {
		return ErrInvalid
	}
	if f.closed {
		return &fs.PathError{Op: op, Path: f.name, Err: ErrClosed}
	}
	return nil
}

//go:norace
func (f *File) Write(p []byte) (int, error) {
	if err := f.check("write"); err != nil {
		return 0, err
	}
	if f.stream != 0 {
		if f.stream == 3 {
			return 0, perr("write", f.name, syscall.EBADF)
		}
		k.appendStream(f.stream, p)
		return len(p), nil
	}
	if f.flag&(O_WRONLY|O_RDWR) == 0 {
		return 0, perr("write", f.name, syscall.EBADF)
	}
	d := k.enter(OpWrite, f.path, len(p))
	n, e := k.fileWrite(f, p, d)
	if e != 0 {
		return n, perr("write", f.name, e)
	}
	k.leave(d)
	return n, nil
}

//go:norace
func (f *File) WriteString(s string) (int, error) { return f.Write([]byte(s)) }

//go:norace
func (f *File) WriteAt(p []byte, off int64) (int, error) {
	if err := f.check("write"); err != nil {
		return 0, err
	}
	save := f.off
	f.off = off
	n, err := f.Write(p)
	f.off = save
	return n, err
}

//go:norace
func (f *File) Read(p []byte) (int, error) {
	if err := f.check("read"); err != nil {
		return 0, err
	}
	if f.stream != 0 {
		return 0, io.EOF
	}
	if f.flag&O_WRONLY != 0 {
		return 0, perr("read", f.name, syscall.EBADF)
	}
	if len(p) == 0 {
		return 0, nil
	}
	d := k.enter(OpRead, f.path, len(p))
	n, e := k.fileRead(f, p, d)
	if e != 0 {
		return n, perr("read", f.name, e)
	}
	k.leave(d)
	if n == 0 {
		return 0, io.EOF
	}
	return n, nil
}

//go:norace
func (f *File) ReadAt(p []byte, off int64) (int, error) {
	if err := f.check("read"); err != nil {
		return 0, err
	}
	if f.stream != 0 {
		return 0, io.EOF
	}
	total := 0
	for total < len(p) {
		save := f.off
		f.off = off + int64(total)
		n, err := f.Read(p[total:])
		f.off = save
		total += n
		if err != nil {
			return total, err
		}
	}
	return total, nil
}

//go:norace
func (f *File) ReadFrom(r io.Reader) (int64, error) {
	return io.Copy(struct{ io.Writer }{f}, r)
}

//go:norace
func (f *File) Seek(offset int64, whence int) (int64, error) {
	if err := f.check("seek"); err != nil {
		return 0, err
	}
	if f.stream != 0 {
		return 0, perr("seek", f.name, syscall.ESPIPE)
	}
	switch whence {
	case 0:
		f.off = offset
	case 1:
		f.off += offset
	case 2:
		f.off = k.size(f) + offset
	}
	if f.off < 0 {
		f.off = 0
		return 0, perr("seek", f.name, syscall.EINVAL)
	}
	return f.off, nil
}

//go:norace
func (f *File) Close() error {
	if f == nil {
		return ErrInvalid
	}
	if f.closed {
		return &fs.PathError{Op: "close", Path: f.name, Err: ErrClosed}
	}
	if f.stream != 0 {
		return nil
	}
	d := k.enter(OpClose, f.path, 0)
	f.closed = true
	if d.kind == FErr {
		return perr("close", f.name, d.errno)
	}
	k.leave(d)
	return nil
}

//go:norace
func (f *File) Sync() error {
	if err := f.check("sync"); err != nil {
		return err
	}
	if f.stream != 0 {
		return nil
	}
	d := k.enter(OpSync, f.path, 0)
	if d.kind == FErr {
		return perr("sync", f.name, d.errno)
	}
	k.leave(d)
	return nil
}

//go:norace
func (f *File) Truncate(size int64) error {
	if err := f.check("truncate"); err != nil {
		return err
	}
	d := k.enter(OpTruncate, f.path, int(size))
	if d.kind == FErr {
		return perr("truncate", f.name, d.errno)
	}
	k.truncate(f.node, size)
	k.leave(d)
	return nil
}

//go:norace
func (f *File) Chmod(mode FileMode) error { return nil }

//go:norace
func (f *File) Fd() uintptr { return ^uintptr(0) }

//go:norace
func (f *File) SetDeadline(t time.Time) error { return nil }

//go:norace
func (f *File) SetReadDeadline(t time.Time) error { return nil }

//go:norace
func (f *File) SetWriteDeadline(t time.Time) error { return nil }

type fileInfo struct {
	name string
	size int64
	dir  bool
	mode uint32
	ino  int   // identity of the file: its node slot (never reused within a run), -1 unknown
	gen  int64 // content generation of the node when the info was taken
}

// SameFile reports whether two FileInfos of the simulated file system
// describe the same file (the same node: a file renamed over another one is
// a different file under the same name); other FileInfos go to os.SameFile.
//
//go:norace
func SameFile(a, b FileInfo) bool {
	fa, oka := a.(fileInfo)
	fb, okb := b.(fileInfo)
	if oka && okb {
		return fa.ino >= 0 && fa.ino == fb.ino
	}
	return os.SameFile(a, b)
}

//go:norace
func (kk *kernel) identOf(p string) (int, int64) {
	i := kk.lookup(p)
	if i < 0 {
		return -1, 0
	}
	return i, kk.nodes[i].gen
}

//go:norace
func (fi fileInfo) Name() string { return fi.name }

//go:norace
func (fi fileInfo) Size() int64 { return fi.size }

//go:norace
func (fi fileInfo) Mode() FileMode {
	m := FileMode(fi.mode) & ModePerm
	if fi.dir {
		m |= ModeDir
	}
	return m
}

// ModTime moves with every change of the file's content (microsecond steps).
//
//go:norace
func (fi fileInfo) ModTime() time.Time { return time.Unix(1_700_000_000, fi.gen*1000) }

//go:norace
func (fi fileInfo) IsDir() bool { return fi.dir }

//go:norace
func (fi fileInfo) Sys() interface{} { return nil }

//go:norace
func (fi fileInfo) Type() FileMode { return fi.Mode().Type() }

//go:norace
func (fi fileInfo) Info() (FileInfo, error) { return fi, nil }

//go:norace
func (f *File) Stat() (FileInfo, error) {
	if err := f.check("stat"); err != nil {
		return nil, err
	}
	if f.stream != 0 {
		return fileInfo{name: filepath.Base(f.name), ino: -1}, nil
	}
	n := &k.nodes[f.node]
	return fileInfo{name: filepath.Base(f.path), size: k.size(f), dir: n.dir, mode: n.mode, ino: f.node, gen: n.gen}, nil
}

//go:norace
func (f *File) ReadDir(n int) ([]DirEntry, error) {
	if err := f.check("readdir"); err != nil {
		return nil, err
	}
	ents, err := ReadDir(f.path)
	if err != nil {
		return nil, err
	}
	if f.dirPos > len(ents) {
		f.dirPos = len(ents)
	}
	ents = ents[f.dirPos:]
	if n > 0 && len(ents) > n {
		ents = ents[:n]
	}
	f.dirPos += len(ents)
	if n > 0 && len(ents) == 0 {
		return nil, io.EOF
	}
	return ents, nil
}

//go:norace
func (f *File) Readdirnames(n int) ([]string, error) {
	ents, err := f.ReadDir(n)
	var out []string
	for _, e := range ents {
		out = append(out, e.Name())
	}
	return out, err
}

//go:norace
func (f *File) Readdir(n int) ([]FileInfo, error) {
	ents, err := f.ReadDir(n)
	var out []FileInfo
	for _, e := range ents {
		fi, _ := e.Info()
		out = append(out, fi)
	}
	return out, err
}

//go:norace
func Stat(name string) (FileInfo, error) {
	p := clean(name)
	d := k.enter(OpStat, p, 0)
	if d.kind == FErr {
		return nil, perr("stat", name, d.errno)
	}
	found, dir, size, mode := k.statNode(p)
	if !found {
		e := syscall.ENOENT
		if k.parentOK(p) == syscall.ENOTDIR {
			e = syscall.ENOTDIR
		}
		return nil, perr("stat", name, e)
	}
	k.leave(d)
	ino, gen := k.identOf(p)
	return fileInfo{name: filepath.Base(p), size: size, dir: dir, mode: mode, ino: ino, gen: gen}, nil
}

//go:norace
func Lstat(name string) (FileInfo, error) { return Stat(name) }

//go:norace
func ReadFile(name string) ([]byte, error) {
	f, err := Open(name)
	if err != nil {
		return nil, err
	}
	defer f.Close()
	var out []byte
	buf := make([]byte, 512)
	for {
		if sz := int(k.size(f) - f.off); sz > len(buf) {
			buf = make([]byte, sz+1)
		}
		n, err := f.Read(buf)
		out = append(out, buf[:n]...)
		if err == io.EOF {
			if out == nil {
				out = []byte{}
			}
			return out, nil
		}
		if err != nil {
			return out, err
		}
	}
}

//go:norace
func WriteFile(name string, data []byte, perm FileMode) error {
	f, err := OpenFile(name, O_WRONLY|O_CREATE|O_TRUNC, perm)
	if err != nil {
		return err
	}
	_, err = f.Write(data)
	if err1 := f.Close(); err1 != nil && err == nil {
		err = err1
	}
	return err
}

//go:norace
func Mkdir(name string, perm FileMode) error {
	p := clean(name)
	d := k.enter(OpMkdir, p, 0)
	if d.kind == FErr {
		return perr("mkdir", name, d.errno)
	}
	if e := k.mkdir(p, uint32(perm)); e != 0 {
		return perr("mkdir", name, e)
	}
	k.leave(d)
	return nil
}

//go:norace
func MkdirAll(name string, perm FileMode) error {
	p := clean(name)
	if found, dir, _, _ := k.statNode(p); found {
		// One stat call, as the real MkdirAll does.
		d := k.enter(OpStat, p, 0)
		if d.kind == FErr {
			return perr("mkdir", name, d.errno)
		}
		k.leave(d)
		if dir {
			return nil
		}
		return perr("mkdir", name, syscall.ENOTDIR)
	}
	if parent := filepath.Dir(p); parent != p {
		if err := MkdirAll(parent, perm); err != nil {
			return err
		}
	}
	err := Mkdir(p, perm)
	if err != nil {
		if found, dir, _, _ := k.statNode(p); found && dir {
			return nil
		}
		return err
	}
	return nil
}

//go:norace
func Remove(name string) error {
	p := clean(name)
	d := k.enter(OpRemove, p, 0)
	if d.kind == FErr {
		return perr("remove", name, d.errno)
	}
	if e := k.remove(p); e != 0 {
		return perr("remove", name, e)
	}
	k.leave(d)
	return nil
}

//go:norace
func RemoveAll(name string) error {
	p := clean(name)
	found, dir, _, _ := k.statNode(p)
	if !found {
		return nil
	}
	if dir {
		for _, c := range k.children(p) {
			if err := RemoveAll(p + "/" + c); err != nil {
				return err
			}
		}
	}
	return Remove(p)
}

//go:norace
func Rename(oldpath, newpath string) error {
	po, pn := clean(oldpath), clean(newpath)
	d := k.enter(OpRename, po+" -> "+pn, 0)
	if d.kind == FErr {
		return &LinkError{Op: "rename", Old: oldpath, New: newpath, Err: d.errno}
	}
	if e := k.rename(po, pn); e != 0 {
		return &LinkError{Op: "rename", Old: oldpath, New: newpath, Err: e}
	}
	k.leave(d)
	return nil
}

// Link creates newname as a copy-on-nothing alias: hard links are modelled as
// an atomic "create newname with old's contents unless it exists".
//
//go:norace
func Link(oldname, newname string) error {
	po, pn := clean(oldname), clean(newname)
	d := k.enter(OpLink, po+" -> "+pn, 0)
	if d.kind == FErr {
		return &LinkError{Op: "link", Old: oldname, New: newname, Err: d.errno}
	}
	e := k.link(po, pn)
	if e != 0 {
		return &LinkError{Op: "link", Old: oldname, New: newname, Err: e}
	}
	k.leave(d)
	return nil
}

//go:norace
func (kk *kernel) link(po, pn string) syscall.Errno {
	i := kk.lookup(po)
	if i < 0 {
		return syscall.ENOENT
	}
	if kk.lookup(pn) >= 0 {
		return syscall.EEXIST
	}
	if e := kk.parentOK(pn); e != 0 {
		return e
	}
	j := kk.alloc()
	src := &kk.nodes[i]
	kk.nodes[j] = node{path: pn, live: true, mode: src.mode}
	kk.nodes[j].writeAt(src.data, 0)
	return 0
}

//go:norace
func Symlink(oldname, newname string) error {
	return &LinkError{Op: "symlink", Old: oldname, New: newname, Err: syscall.EPERM}
}

//go:norace
func Readlink(name string) (string, error) { return "", perr("readlink", name, syscall.EINVAL) }

//go:norace
func Chmod(name string, mode FileMode) error {
	p := clean(name)
	d := k.enter(OpChmod, p, 0)
	if d.kind == FErr {
		return perr("chmod", name, d.errno)
	}
	if found, _, _, _ := k.statNode(p); !found {
		return perr("chmod", name, syscall.ENOENT)
	}
	k.leave(d)
	return nil
}

//go:norace
func Chtimes(name string, atime, mtime time.Time) error { return nil }

//go:norace
func Chown(name string, uid, gid int) error { return nil }

//go:norace
func Truncate(name string, size int64) error {
	f, err := OpenFile(name, O_WRONLY, 0)
	if err != nil {
		return err
	}
	defer f.Close()
	return f.Truncate(size)
}

type dirEntry struct{ fileInfo }

//go:norace
func ReadDir(name string) ([]DirEntry, error) {
	p := clean(name)
	d := k.enter(OpReadDir, p, 0)
	if d.kind == FErr {
		return nil, perr("open", name, d.errno)
	}
	found, dir, _, _ := k.statNode(p)
	if !found {
		return nil, perr("open", name, syscall.ENOENT)
	}
	if !dir {
		return nil, perr("readdirent", name, syscall.ENOTDIR)
	}
	names := k.children(p)
	sort.Strings(names)
	var out []DirEntry
	for _, n := range names {
		_, cdir, size, mode := k.statNode(filepath.Join(p, n))
		ino, gen := k.identOf(filepath.Join(p, n))
		out = append(out, dirEntry{fileInfo{name: n, size: size, dir: cdir, mode: mode, ino: ino, gen: gen}})
	}
	k.leave(d)
	return out, nil
}

//go:norace
func nextTemp() string {
	return strconv.FormatInt(nextTempN(), 10)
}

//go:norace
func nextTempN() int64 {
	k.tmpCtr++
	return 1000000 + k.tmpCtr*7919
}

//go:norace
func splitPattern(pattern string) (prefix, suffix string) {
	if i := strings.LastIndex(pattern, "*"); i >= 0 {
		return pattern[:i], pattern[i+1:]
	}
	return pattern, ""
}

//go:norace
func CreateTemp(dir, pattern string) (*File, error) {
	if dir == "" {
		dir = TempDir()
	}
	if strings.ContainsRune(pattern, '/') {
		return nil, &PathError{Op: "createtemp", Path: pattern, Err: errors.New("pattern contains path separator")}
	}
	prefix, suffix := splitPattern(pattern)
	for try := 0; try < 10000; try++ {
		name := filepath.Join(dir, prefix+nextTemp()+suffix)
		f, err := OpenFile(name, O_RDWR|O_CREATE|O_EXCL, 0600)
		if IsExist(err) {
			continue
		}
		return f, err
	}
	return nil, perr("createtemp", dir, syscall.EEXIST)
}

//go:norace
func MkdirTemp(dir, pattern string) (string, error) {
	if dir == "" {
		dir = TempDir()
	}
	prefix, suffix := splitPattern(pattern)
	for try := 0; try < 10000; try++ {
		name := filepath.Join(dir, prefix+nextTemp()+suffix)
		err := Mkdir(name, 0700)
		if IsExist(err) {
			continue
		}
		if err != nil {
			return "", err
		}
		return name, nil
	}
	return "", perr("mkdirtemp", dir, syscall.EEXIST)
}

//go:norace
func Getenv(key string) string { v, _ := k.getenv(key); return v }

//go:norace
func LookupEnv(key string) (string, bool) { return k.getenv(key) }

//go:norace
func Setenv(key, value string) error { k.setenv(key, value); return nil }

//go:norace
func Unsetenv(key string) error { k.setenv(key, ""); return nil }

//go:norace
func Environ() []string {
	var out []string
	for i := 0; i+1 < k.nenv; i += 2 {
		out = append(out, k.env[i]+"="+k.env[i+1])
	}
	return out
}

//go:norace
func ExpandEnv(s string) string { return os.Expand(s, Getenv) }

//go:norace
func Expand(s string, m func(string) string) string { return os.Expand(s, m) }

//go:norace
func TempDir() string {
	if d := Getenv("TMPDIR"); d != "" {
		return d
	}
	return "/tmp"
}

//go:norace
func UserConfigDir() (string, error) {
	if d := Getenv("XDG_CONFIG_HOME"); d != "" {
		if !filepath.IsAbs(d) {
			return "", errors.New("path in $XDG_CONFIG_HOME is relative")
		}
		return d, nil
	}
	h := Getenv("HOME")
	if h == "" {
		return "", errors.New("neither $XDG_CONFIG_HOME nor $HOME are defined")
	}
	return h + "/.config", nil
}

//go:norace
func UserCacheDir() (string, error) {
	h := Getenv("HOME")
	if h == "" {
		return "", errors.New("neither $XDG_CACHE_HOME nor $HOME are defined")
	}
	return h + "/.cache", nil
}

//go:norace
func UserHomeDir() (string, error) {
	h := Getenv("HOME")
	if h == "" {
		return "", errors.New("$HOME is not defined")
	}
	return h, nil
}

//go:norace
func Getwd() (string, error) { return Cwd, nil }

//go:norace
func Chdir(dir string) error { Cwd = clean(dir); return nil }

//go:norace
func Hostname() (string, error) { return "simhost", nil }

//go:norace
func Getpid() int { return 4242 }

//go:norace
func Getppid() int { return 1 }

//go:norace
func Getuid() int { return 1000 }

//go:norace
func Geteuid() int { return 1000 }

//go:norace
func Getgid() int { return 1000 }

//go:norace
func Getpagesize() int { return 4096 }

//go:norace
func Executable() (string, error) { return "/sim/bin/pprof", nil }

// Exit ends the simulated process.
//
//go:norace
func Exit(code int) {
	noteExit(code)
	if simrt.Active() {
		simrt.Kill()
	}
	panic(ExitPanic{code})
}

// ExitPanic is the panic value used by Exit outside a run.
type ExitPanic struct{ Code int }

//go:norace
func noteExit(code int) { k.exited = true; k.exitCode = code }

//go:norace
func DirFS(dir string) fs.FS { return os.DirFS("/nonexistent-simos") }
