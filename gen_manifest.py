#!/usr/bin/env python3
# Regenerates MANIFEST.json from the tables below (kept in one place so the manifest stays valid).
import json
na = {
 "C01":"write->parse round trip is a pure function of the in-memory profile: no schedule, clock, fault or interleaving in the statement (concurrent Write/Copy is decided under C20, byte-stability under map order under C08)",
 "C03":"profile.Merge/Compact are pure single-threaded functions of their argument list",
 "C04":"report numbers are a pure function of (profile, options)",
 "C05":"trimming is a pure function of (profile, options)",
 "C06":"filters are pure functions of (profile, expressions)",
 "C07":"linearity of combine/subtract is a pure input property (the concurrent fetch underneath is C16)",
 "C11":"frame dropping is a pure function of (profile, expressions)",
 "C13":"ELF address arithmetic is a pure function of (headers, mapping, address)",
 "C14":"legacy parsers are pure functions of the input bytes",
 "C15":"unit conversion is pure arithmetic",
 "C17":"stack-set construction is a pure function of the report",
 "C18":"output syntax is a pure function of (profile, options)",
}
pending = {
}
checks = {
 "C19": dict(cat="fault_enumeration", ref="DESIGN.md §3 C19, §2.5",
   text="settings.json lives on a simulated disk; for every explored save/delete operation the check enumerates every crash point (before/after each simulated system call, after every byte of every write) and every single I/O error, restarts, and demands old-or-new contents plus a successful following save; sequential histories are compared step by step with an independent model and concurrent clients are checked for linearizability under a seeded scheduler. Crash points are exhaustive per explored operation; histories, option sets and interleavings are sampled.",
   note="trusted: the simulated disk's kill model (completed calls survive, no power-loss model), atomic rename, the engine's own option table (URL parameter / JSON field / default) taken from the documented settings format",
   tech="deterministic simulation: seeded histories + exhaustive single-fault/crash-point enumeration on a simulated disk + seeded interleavings with linearizability search"),
 "C16": dict(cat="exploration", ref="DESIGN.md §3 C16",
   text="driver.PProf is run end to end with every fetch goroutine a simulated task; a seeded scheduler and simulated latencies fix the completion order and a seeded fault plan decides which sources fail and how (missing, HTTP status, garbage, torn, invalid, Fetcher error, stall to timeout in simulated time, disk read error), across the 128-source chunk boundary; the merged -proto report is checked against a reference model built from the generator's description of the good sources, against the sequential schedule (bytes) and against the run listing only the good sources, with per-source error accounting, exit status and the command-line order of the merge (one comment per source). In part of the cases URL sources go through pprof's own internal/transport over a simulated TLS network (http, https, https to a self-signed server, https+insecure, -tls_ca). For n<=3 (quick) / n<=4 (thorough) remote sources all failing subsets x completion orders are enumerated; everything else is sampled.",
   note="trusted: the simulated transport returns only results a real server/kernel can return; http.Client's timeout goroutine is not simulated (the stall is modelled in the transport)",
   tech="deterministic simulation: seeded scheduler + simulated latencies + per-source fault plans; reference model and schedule/failure-independence oracles"),
 "C10": dict(cat="exploration", ref="DESIGN.md §3 C10",
   text="seeded interactive and web histories, and concurrent web mixes under a seeded scheduler with function-entry preemption, run against the real driver; each step is compared (output bytes, UI transcript, HTTP status and body) with the same step on a fresh session after a simulated process boundary that executed only the preceding option assignments - an executable reference that needs no model of option semantics. Web clients may go away mid-response; half of the interactive sessions also have their loaded profile watched across commands (a modification triggers a battery of plain reports compared with fresh sessions).",
   note="trusted: the simulated process boundary (generated re-initialisation of all package-level state of the instrumented packages) is equivalent to a new process",
   tech="deterministic simulation: seeded histories and interleavings, refinement against a fresh-session reference"),
 "C08": dict(cat="exploration", ref="DESIGN.md §3 C08, §2.4",
   text="every range-over-map in pprof is rewritten at check time into a seeded seam; the same command on the same tie-rich inputs is re-run under seeded map-iteration permutations and fetch interleavings and repeated inside one session; output bytes must equal those of the canonical-order, sequential run, for text, graph, proto and web outputs.",
   note="trusted: the permuted key snapshot is a legal Go map iteration order; pointer-key canonical order by first-insertion stamps",
   tech="deterministic simulation: map-iteration order and fetch completion order as seeded schedule dimensions, byte-equality oracle"),
}
checks["C20"]=dict(cat="exploration", ref="DESIGN.md §3 C20, §2.2",
   text="the tool's own concurrent operations (Write/Copy on a shared profile, option get/set, temp-file creation, concurrent web requests incl. saving and deleting configurations, parallel fetch, several addresses symbolized through one shared ObjFile over scripted tool pipes, concurrent tool configuration) run as simulated tasks under a seeded scheduler whose hand-offs are invisible to the Go race detector; a race report, deadlock, hang, torn output or a result that differs from the one-at-a-time execution is a violation.",
   note="trusted: runtime.RaceDisable semantics (sync events ignored, memory accesses still tracked); the simulated kernel and scheduler are //go:norace so they add no happens-before edges and no reports of their own",
   tech="deterministic simulation: seeded interleavings (random walk, PCT, function-entry preemption) under the race detector with race-invisible scheduling; sequential-equivalence and linearizability oracles")
checks["C12"]=dict(cat="fault_enumeration", ref="DESIGN.md §3 C12",
   text="the real Symbolizer runs against scripted object-file and symbol-service plug-ins; after recording the fault-free execution every plug-in call is failed in turn with every applicable failure kind (exhaustive single-fault coverage per generated profile), then seeded multi-fault plans; the oracle is a frame condition on a deep before/after snapshot: samples, values, labels, stacks, addresses and mapping ranges untouched, symbolized mappings left alone without force, names never emptied, ids unique, profile valid - also when Symbolize returns an error.",
   note="trusted: the scripted plug-ins return only answers a real binutils/symbolz endpoint can return; 'already carries symbols' = HasFunctions",
   tech="deterministic simulation: scripted plug-ins behind the ObjTool/Transport seams, exhaustive single-fault enumeration per call + seeded fault sequences, frame-condition oracle")
checks["C09"]=dict(cat="exploration", ref="DESIGN.md §3 C09",
   text="seeded interactive, command-line and web sessions of the real driver.PProf over odd-but-valid profiles, with hostile lines, option values and query strings from a grammar plus noise, a usability probe after every hostile step, and a per-run swarm of faults in the terminal, output writer, object tool, external tools and the simulated disk; any panic (main task, fetch tasks, handlers, completer), deadlock, hang (step cap), os.Exit or a session that stops reading input is a violation.",
   note="trusted: the simulated plug-ins return only well-formed answers; hang detection is a step cap on scheduling points of the simulated run plus the worker watchdog",
   tech="deterministic simulation: seeded session histories with plug-in and disk fault injection; no-panic / no-hang / still-usable oracles")
checks["C02"]=dict(cat="fault_enumeration", ref="DESIGN.md §3 C02",
   text="restricted claim: parsing is total on what a valid stored profile turns into when storage and streams misbehave. A corpus of valid encodings is stored on the simulated disk, damaged by exactly one enumerated fault (every truncation length, every byte x five masks on stored and on gzip-payload bytes, sectors zeroed/lost/duplicated, read errors at every read call, short reads, seeded multi-fault combinations) and read back by the real parser; no panic, prompt return, and an error or a profile that passes an independent validity check and survives Write->Parse, Copy, Compact and every text report. Single-fault families are enumerated completely per (corpus entry, family); which entries and families are visited is sampled.",
   note="restriction: inputs unrelated to any valid encoding (random field soups, concatenations of formats) are outside this check; trusted: the simulated disk's fault model",
   tech="deterministic simulation: exhaustive single-fault enumeration on stored bytes and read streams of a simulated disk, independent validity oracle + downstream pipeline")
order = ["C02","C08","C09","C10","C12","C16","C19","C20"]
m = {
 "version":1,
 "setup_cmd":"cd /verif && ./setup.sh",
 "hooks":{"guard":"verif","enable":"no source change in /repo: checks build with `go test -c -tags verif -vet=off -overlay=<generated>`; the overlay holds instrumented copies of the current working tree plus the simulated runtime (/verif/sim) and the engines (/verif/engines)","baseline_off_cmd":"cd /repo && go test -mod=mod -vet=off -count=1 ./...","source_commits":[],"add_only":True},
 "engines":[{"name":"driver-sim","path":"engines/driver","serves_properties":order,"kind_free_text":"scenario engines injected (via go build -overlay) as internal test files into instrumented copies of internal/driver; they run the real driver.PProf under the simrt baton scheduler over simos/simexec/simtime; one worker OS process per core, one seed = one exactly repeatable execution"}],
 "checks":[],
 "notes":"deterministic simulation with fault injection; see DESIGN.md. /repo carries only unguarded 'fix:' commits (genuine defects, listed in known_findings.json); all seams are created at check time from the current working tree.",
 "not_applicable":[{"property_id":k,"reason":v} for k,v in sorted({**na, **pending}.items()) if k not in checks]
}
for p in order:
    c=checks[p]
    m["checks"].append({
     "property_id":p,
     "quick_cmd":"cd /verif && ./bin/verif check %s --tier quick"%p,
     "thorough_cmd":"cd /verif && ./bin/verif check %s --tier thorough"%p,
     "evidence_file":"/verif/evidence/%s.json"%p,
     "replay_cmd_template":"cd /verif && ./bin/verif replay {path}",
     "engine":"driver-sim",
     "level_claimed":{"category":c["cat"],"text":c["text"],"design_ref":c["ref"]},
     "level_note":c["note"],
     "technique":c["tech"]})
json.dump(m,open('/verif/MANIFEST.json','w'),indent=1)
print("checks:",[c["property_id"] for c in m["checks"]],"n/a:",len(m["not_applicable"]))
