import sys,json,collections,re
c=collections.Counter(); ex={}; n=0
for l in sys.stdin:
    if not l.startswith('{'): continue
    r=json.loads(l); n+=1
    v=r.get('violation')
    if not v: continue
    d=v['detail']
    m=re.search(r'(panicked: [^\n]*)',d)
    sig=v['class']+':'+(re.sub(r'0x[0-9a-f]+','X',m.group(1))[:110] if m else d[:80])
    m2=re.findall(r'github.com/google/pprof/[\w/]+\.[\w\.\(\)\*]+\(',d)
    m2=[z for z in m2 if 'verifsim' not in z and 'verif_' not in z]
    sig+=' @ '+(m2[0] if m2 else '')
    c[sig]+=1; ex.setdefault(sig,[]).append((r['seed'],d[:int(sys.argv[1]) if len(sys.argv)>1 else 500]))
print(n)
for k,n in c.most_common(): print(n,k); [print('    ',e) for e in ex[k][:1]]
